(* Freighter/StreamProofs.v — the checker [greedy] decides trace inclusion in the Stream LTS:
   it accepts per-side observation lists iff some interleaving of them is a trace. *)
From Coq Require Import List NArith Bool String Arith Lia.
From Synnax Require Import Generated.Consts_C14 Freighter.Stream.
Import ListNotations.
Local Open Scope N_scope.

(* tr is an interleaving of cl and hl *)
Inductive merge : list lab -> list lab -> list lab -> Prop :=
| merge_nil : merge [] [] []
| merge_c c cl hl tr : merge cl hl tr -> merge (c :: cl) hl (c :: tr)
| merge_h h cl hl tr : merge cl hl tr -> merge cl (h :: hl) (h :: tr).

Lemma merge_nil_r cl : merge cl [] cl.
Proof. induction cl; constructor; auto. Qed.

Lemma merge_nil_r_inv cl tr : merge cl [] tr -> tr = cl.
Proof.
  intros H. remember [] as hl. induction H; subst; try discriminate; auto.
  f_equal; auto.
Qed.

Lemma merge_filter cl hl tr :
  merge cl hl tr -> forallb is_client cl = true ->
  forallb (fun l => negb (is_client l)) hl = true ->
  filter is_client tr = cl /\ filter (fun l => negb (is_client l)) tr = hl.
Proof.
  induction 1; simpl; intros Hc Hh; auto.
  - apply andb_prop in Hc as [Hc1 Hc2]. rewrite Hc1. simpl.
    destruct (IHmerge Hc2 Hh) as [-> ->]. auto.
  - apply andb_prop in Hh as [Hh1 Hh2]. rewrite Hh1.
    apply negb_true_iff in Hh1. rewrite Hh1.
    destruct (IHmerge Hc Hh2) as [-> ->]. auto.
Qed.

Lemma merge_of_filter tr :
  merge (filter is_client tr) (filter (fun l => negb (is_client l)) tr) tr.
Proof.
  induction tr as [|l tr IH]; simpl; [constructor|].
  destruct (is_client l); simpl; constructor; auto.
Qed.

(* ---------------------------------------------------------------- soundness *)
Lemma greedy_sound prof t fuel : forall s cl hl,
  greedy fuel prof t s cl hl = true ->
  exists tr s', merge cl hl tr /\ run prof t s tr = Some s'.
Proof.
  induction fuel as [|f IH]; intros s cl hl H; simpl in H.
  - destruct cl, hl; try discriminate. exists [], s. split; [constructor|reflexivity].
  - destruct hl as [|h hl'].
    + destruct cl as [|c cl'].
      * exists [], s. split; [constructor|reflexivity].
      * destruct (step prof t s c) as [s1|] eqn:E; [|discriminate].
        destruct (IH _ _ _ H) as (tr & s' & Hm & Hr).
        exists (c :: tr), s'. split; [constructor; auto|]. simpl. rewrite E. auto.
    + destruct (step prof t s h) as [s2|] eqn:E.
      * destruct (IH _ _ _ H) as (tr & s' & Hm & Hr).
        exists (h :: tr), s'. split; [constructor; auto|]. simpl. rewrite E. auto.
      * destruct cl as [|c cl']; [discriminate|].
        destruct (step prof t s c) as [s1|] eqn:E1; [|discriminate].
        destruct (IH _ _ _ H) as (tr & s' & Hm & Hr).
        exists (c :: tr), s'. split; [constructor; auto|]. simpl. rewrite E1. auto.
Qed.

(* ---------------------------------------------------------------- diamond *)
Lemma app_cons_head {A} (a : A) l b : (a :: l) ++ [b] = a :: (l ++ [b]).
Proof. reflexivity. Qed.

Ltac inv H := inversion H; subst; clear H.

Ltac brk :=
  repeat match goal with
  | H : Some _ = Some _ |- _ => inv H
  | H : None = Some _ |- _ => discriminate H
  | H : false = true |- _ => discriminate H
  | H : (if ?x then _ else _) = Some _ |- _ => destruct x eqn:?
  | H : match ?x with _ => _ end = Some _ |- _ => destruct x eqn:?
  end.

(* A client step and a handler step that are both enabled commute: neither disables the other
   and the order does not matter. *)
Lemma diamond prof t s c h s1 s2 :
  is_client c = true -> is_client h = false ->
  step prof t s c = Some s1 -> step prof t s h = Some s2 ->
  exists s3, step prof t s1 h = Some s3 /\ step prof t s2 c = Some s3.
Proof.
  intros Hc Hh H1 H2.
  destruct s as [rq rs ret se re ca fa sr].
  destruct c as [x r|r|r| | |]; try discriminate Hc;
  destruct h as [| | |r'|y r'|e]; try discriminate Hh;
  unfold step in H1, H2; cbn [req res returned c_sendErr c_recvErr c_called c_failed s_recvErr] in *.
  all: unfold send_guard in *; cbn [req res returned c_sendErr c_recvErr c_called c_failed s_recvErr] in *.
  all: brk; subst.
  all: unfold step, send_guard; cbn [req res returned c_sendErr c_recvErr c_called c_failed s_recvErr app].
  all: repeat match goal with
       | H : ?x = _ |- context [?x] => rewrite H
       end.
  all: try (eexists; split; reflexivity).
  all: try (rewrite ?orb_true_r, ?andb_true_r; eexists; split; reflexivity).
  destruct (prof =? 0).
  - destruct se as [e0|].
    + rewrite Heqb. eexists; split; reflexivity.
    + rewrite orb_false_r in Heqb. apply andb_prop in Heqb as [-> _].
      rewrite orb_true_r. eexists; split; reflexivity.
  - destruct (prof =? 2).
    + rewrite Heqb. eexists; split; reflexivity.
    + destruct (prof =? 3).
      * destruct ca.
        -- rewrite Heqb. eexists; split; reflexivity.
        -- rewrite orb_false_r in Heqb. apply andb_prop in Heqb as [-> _].
           rewrite orb_true_r. eexists; split; reflexivity.
      * rewrite andb_false_r, orb_false_r in Heqb. rewrite Heqb. eexists; split; reflexivity.
Qed.

(* ---------------------------------------------------------------- completeness *)
Definition all_client (l : list lab) := forallb is_client l = true.
Definition all_handler (l : list lab) := forallb (fun l => negb (is_client l)) l = true.

(* if the handler's next label is enabled now, it can be moved to the front of any trace *)
Lemma move_front_h prof t : forall tr s s' cl h hl s2,
  merge cl (h :: hl) tr -> all_client cl -> is_client h = false ->
  run prof t s tr = Some s' -> step prof t s h = Some s2 ->
  exists tr', merge cl hl tr' /\ run prof t s2 tr' = Some s'.
Proof.
  induction tr as [|l tr IH]; intros s s' cl h hl s2 Hm Hc Hh Hr Hs.
  - inversion Hm.
  - inversion Hm; subst.
    + (* a client label first *)
      simpl in Hr. destruct (step prof t s l) as [s1|] eqn:E1; [|discriminate].
      unfold all_client in Hc. simpl in Hc. apply andb_prop in Hc as [Hl Hc].
      destruct (diamond prof t s l h s1 s2 Hl Hh E1 Hs) as (s3 & E3 & E4).
      match goal with Hm0 : merge cl0 (h :: hl) tr |- _ =>
        destruct (IH s1 s' cl0 h hl s3 Hm0 Hc Hh Hr E3) as (tr' & Hm' & Hr') end.
      exists (l :: tr'). split; [constructor; auto|]. simpl. rewrite E4. auto.
    + (* h itself *)
      simpl in Hr. rewrite Hs in Hr. exists tr. split; auto.
Qed.

Lemma greedy_complete prof t : forall fuel s s' cl hl tr,
  fuel = (List.length cl + List.length hl)%nat ->
  merge cl hl tr -> all_client cl -> all_handler hl ->
  run prof t s tr = Some s' ->
  greedy fuel prof t s cl hl = true.
Proof.
  induction fuel as [|f IH]; intros s s' cl hl tr Hf Hm Hc Hh Hr.
  - destruct cl, hl; simpl in Hf; try lia. reflexivity.
  - simpl. destruct hl as [|h hl'].
    + apply merge_nil_r_inv in Hm. subst tr.
      destruct cl as [|c cl']; [reflexivity|].
      simpl in Hr. destruct (step prof t s c) as [s1|] eqn:E; [|discriminate].
      unfold all_client in Hc. simpl in Hc. apply andb_prop in Hc as [_ Hc].
      apply (IH s1 s' cl' [] cl'); auto; try apply merge_nil_r; simpl in Hf |- *; lia.
    + unfold all_handler in Hh. simpl in Hh. apply andb_prop in Hh as [Hh1 Hh].
      apply negb_true_iff in Hh1.
      destruct (step prof t s h) as [s2|] eqn:E.
      * destruct (move_front_h prof t tr s s' cl h hl' s2 Hm Hc Hh1 Hr E) as (tr' & Hm' & Hr').
        apply (IH s2 s' cl hl' tr'); auto. simpl in Hf |- *. lia.
      * (* h is not enabled: the trace must start with the client's label *)
        inversion Hm; subst.
        -- simpl in Hr. destruct (step prof t s c) as [s1|] eqn:E1; [|discriminate].
           unfold all_client in Hc. simpl in Hc. apply andb_prop in Hc as [_ Hc].
           apply (IH s1 s' cl0 (h :: hl') tr0); auto;
             try (unfold all_handler; simpl; rewrite Hh1; simpl; auto; fail);
             simpl in Hf |- *; lia.
        -- simpl in Hr. rewrite E in Hr. discriminate.
Qed.

(* every trace of the LTS is accepted by the checker run on its two projections *)
Theorem accepts_complete prof t tr s' :
  run prof t init tr = Some s' ->
  accepts prof t (filter is_client tr) (filter (fun l => negb (is_client l)) tr) = true.
Proof.
  intros Hr. unfold accepts.
  assert (Hc : all_client (filter is_client tr)).
  { unfold all_client. apply forallb_forall. intros x Hx. apply filter_In in Hx. tauto. }
  assert (Hh : all_handler (filter (fun l => negb (is_client l)) tr)).
  { unfold all_handler. apply forallb_forall. intros x Hx. apply filter_In in Hx. tauto. }
  rewrite Hc, Hh. simpl.
  eapply greedy_complete; eauto. apply merge_of_filter.
Qed.

(* whatever the checker accepts is the pair of projections of some trace of the LTS *)
Theorem accepts_sound prof t cl hl :
  accepts prof t cl hl = true ->
  exists tr s', run prof t init tr = Some s' /\
                filter is_client tr = cl /\ filter (fun l => negb (is_client l)) tr = hl.
Proof.
  unfold accepts. intros H.
  apply andb_prop in H as [H Hg]. apply andb_prop in H as [Hc Hh].
  destruct (greedy_sound _ _ _ _ _ _ Hg) as (tr & s' & Hm & Hr).
  exists tr, s'. split; auto. apply merge_filter; auto.
Qed.
