(* Freighter/Stream.v — executable model of freighter streams.
   Copies: freighter/go/stream.go (documented ClientStream / ServerStream contract),
           freighter/go/mock/stream.go (the reference implementation: two FIFO channels, the
             serverClosed / clientClosed signals, the cached sendErr / receiveErr of both ends,
             exec's terminal error message),
           x/go/errors/encode.go (Encode / Decode over the provider registry, Payload.Error,
             Payload.Unmarshal), freighter/go/errors.go and the providers of x/go/query,
             x/go/control, x/go/validate (tables regenerated into Generated/Consts_C14.v),
           the terminal-error paths of http/stream_server.go close (context.Canceled => close
             code only), grpc/stream.go Handler (io.EOF => nil; error travels as the string
             Payload.Error() and is re-split by Payload.Unmarshal).
   Not modelled: context cancellation, transport failure, bounded channel buffers (Send is taken
   to be non-blocking as documented), use of a ServerStream after its handler returned, middleware,
   the freightfluence Sender / Receiver adapters (plumbing between confluence and these calls).
   No proofs in this file: it must keep evaluating when a proof breaks. *)
From Coq Require Import List NArith Bool String Arith.
From Synnax Require Import Generated.Consts_C14.
Import ListNotations.
Local Open Scope N_scope.

(* ------------------------------------------------------------------ payloads, errors *)

Definition pay := N.            (* payload identity (id, size, content checksum ok) *)
Definition msg := list N.       (* Error() text cut at every "---"; one id per chunk *)

Definition cEOF : N := 1.
Definition cClosed : N := 2.
Definition cPath : N := 13.
Definition cCanceled : N := 16.
Definition cDeadline : N := 17.
Definition cOther : N := 99.

(* the error a handler returns: [e_kind] the sentinel it is (or wraps; 14/15 = no sentinel),
   [e_path] wrapped in a validate.PathError, [e_msg] its Error() text *)
Record err := Err { e_kind : N; e_path : bool; e_msg : msg }.

Fixpoint msg_eqb (a b : msg) : bool :=
  match a, b with
  | [], [] => true
  | x :: a', y :: b' => (x =? y) && msg_eqb a' b'
  | _, _ => false
  end.

(* stdlib errors.Is over the Wrap chains [ps] (child, parent) declared in the provider packages *)
Fixpoint isa_fuel (ps : list (N * N)) (fuel : nat) (k s : N) : bool :=
  (k =? s) ||
  match fuel with
  | O => false
  | S f => match find (fun p => fst p =? k) ps with
           | Some (_, q) => isa_fuel ps f q s
           | None => false
           end
  end.
Definition isa_tab (ps : list (N * N)) (k s : N) : bool := isa_fuel ps (List.length ps) k s.
Definition isa (k s : N) : bool := isa_tab parents k s.

(* registry.encode: providers in order, each provider's CheapIs tests in order *)
Definition enc_rules : list (N * string) := flat_map (fun p => fst (fst p)) providers.
Definition enc_rule (k : N) : option (N * string) := find (fun r => isa k (fst r)) enc_rules.

(* a payload on the wire. [p_inner]: the JSON-embedded payload of a PathError's inner error;
   [p_roach]: what the cockroachdb codec carries (internal transports, unregistered errors);
   [p_garbled]: Unmarshal could not split type from data (the text became the message) *)
Record payload := P {
  p_ty : string; p_data : msg; p_inner : option (string * msg);
  p_roach : option (N * msg); p_garbled : bool }.

Definition ty_unknown : string := "unknown".
Definition ty_roach : string := "roach".

Definition base_ty (k : N) : string :=
  match enc_rule k with Some (_, ty) => ty | None => ty_unknown end.

(* errors.Encode(ctx, e, internal) for e <> nil *)
Definition encode (internal : bool) (e : err) : payload :=
  if e_path e then P path_type (e_msg e) (Some (base_ty (e_kind e), e_msg e)) None false
  else match enc_rule (e_kind e) with
       | Some (_, ty) => P ty (e_msg e) None None false
       | None => if internal then P ty_roach [0] None (Some (e_kind e, e_msg e)) false
                 else P ty_unknown (e_msg e) None None false
       end.

(* grpc: the payload travels as Payload.Error() = type ++ "---" ++ data and is re-split *)
Definition transit (split_all : bool) (p : payload) : payload :=
  if split_all && negb (Nat.eqb (List.length (p_data p)) 1)
  then P ty_unknown (p_data p) None None true
  else p.

(* registry.decode: first provider whose decode accepts the type (exact cases, then prefixes) *)
Definition prov_dec (pr : list (N * string) * list (string * N) * list (string * N)) (ty : string)
  : option N :=
  match find (fun x => String.eqb (fst x) ty) (snd (fst pr)) with
  | Some (_, k) => Some k
  | None => match find (fun x => String.prefix (fst x) ty) (snd pr) with
            | Some (_, k) => Some k
            | None => None
            end
  end.
Fixpoint dec_type_in (prs : list (list (N * string) * list (string * N) * list (string * N)))
  (ty : string) : option N :=
  match prs with
  | [] => None
  | pr :: rest => match prov_dec pr ty with Some k => Some k | None => dec_type_in rest ty end
  end.
Definition dec_type (ty : string) : option N := dec_type_in providers ty.

(* what the receiver can observe of a decoded error: identity class (stdlib errors.Is against
   the sentinels, most specific first), class of a PathError's inner error, and the message
   when the model predicts it (plain errors only) *)
Record image := Img { i_cls : N; i_inner : N; i_msg : option msg }.

(* class the cockroachdb codec restores for an unregistered error (library behaviour, observed):
   only context.DeadlineExceeded comes back as the singleton *)
Definition roach_cls (k : N) : N := if k =? cDeadline then cDeadline else cOther.

Definition plain_img (p : payload) : image :=
  Img cOther 0 (if p_garbled p then None else Some (p_data p)).

Definition decode (p : payload) : image :=
  match dec_type (p_ty p) with
  | Some 0 => plain_img p
  | Some k =>
      if k =? cPath then
        Img cPath (match p_inner p with
                   | Some (ity, _) => match dec_type ity with
                                      | Some 0 | None => cOther
                                      | Some k' => k'
                                      end
                   | None => cOther
                   end) None
      else Img k 0 None
  | None =>
      match p_roach p with
      | Some (k, m) => Img (roach_cls k) 0 (if roach_cls k =? cOther then Some m else None)
      | None => plain_img p
      end
  end.

Definition img_eof : image := Img cEOF 0 None.

(* transports: 0 mock, 1 websocket/json, 2 websocket/msgpack, 3 grpc (Internal=false),
   4 grpc (Internal=true) *)
Definition wire_gen (split_all : bool) (t : N) (e : option err) : image :=
  match e with
  | None => img_eof
  | Some e =>
      if t =? 0 then decode (encode true e)
      else if (t =? 1) || (t =? 2) then
        if negb (e_path e) && isa (e_kind e) cCanceled then Img cCanceled 0 None
        else decode (encode false e)
      else
        if negb (e_path e) && isa (e_kind e) cEOF then img_eof
        else decode (transit split_all (encode (t =? 4) e))
  end.
Definition wire := wire_gen unmarshal_split_all.

(* ------------------------------------------------------------------ the stream LTS *)

(* result of one call, as observed *)
Inductive rsl :=
| ROk
| RVal (p : pay)
| RErr (cls inner : N) (m : msg).

Inductive lab :=
| CSend (x : pay) (r : rsl)      (* client Send x returned r *)
| CClose (r : rsl)               (* client CloseSend *)
| CRecv (r : rsl)                (* client Receive *)
| HRecv (r : rsl)                (* handler Receive *)
| HSend (y : pay) (r : rsl)      (* handler Send y *)
| HRet (e : option err).         (* handler returns e *)

Definition is_client (l : lab) : bool :=
  match l with CSend _ _ | CClose _ | CRecv _ => true | _ => false end.

Definition trip := (N * N * msg)%type.
Definition trip_eqb (a b : trip) : bool :=
  (fst (fst a) =? fst (fst b)) && (snd (fst a) =? snd (fst b)) && msg_eqb (snd a) (snd b).

Record st := St {
  req : list (option pay);          (* client -> server FIFO; None = end marker of CloseSend *)
  res : list (pay + option err);    (* server -> client FIFO; inr = terminal message of exec *)
  returned : bool;                  (* serverClosed *)
  c_sendErr : option N;             (* mock ClientStream.sendErr (class) *)
  c_recvErr : option trip;          (* ClientStream.receiveErr *)
  c_called : bool;                  (* CloseSend has been called *)
  c_failed : bool;                  (* some client Send returned an error *)
  s_recvErr : option trip }.        (* ServerStream.receiveErr *)

Definition init : st := St [] [] false None None false false None.

Definition is_none {A} (o : option A) : bool := match o with None => true | Some _ => false end.

Definition img_ok (i : image) (o : trip) : bool :=
  (i_cls i =? fst (fst o)) && (i_inner i =? snd (fst o)) &&
  match i_msg i with Some m => msg_eqb m (snd o) | None => true end.

(* profiles: 0 = exactly mock/stream.go; 2 = exactly http/stream_client.go (websocket: the cached
   peer error is tested before sendClosed, Send never fails merely because the server is done);
   3 = exactly grpc/stream.go (closeSent is tested first, then grpc's own end-of-stream);
   1 = the documented contract of stream.go, which all three refine (where two documented
   failure clauses apply at once either result is allowed, and a Send that races the handler's
   return may succeed or fail) *)
Definition send_guard (prof : N) (s : st) (r : rsl) : bool :=
  match r with
  | ROk =>
      if (prof =? 0) || (prof =? 2) then is_none (c_sendErr s) && is_none (c_recvErr s)
      else negb (c_called s) && is_none (c_recvErr s) && negb (c_failed s)
  | RErr c _ _ =>
      if prof =? 0 then
        match c_sendErr s with
        | Some e => c =? e
        | None => (c =? cEOF) && (negb (is_none (c_recvErr s)) || returned s)
        end
      else if prof =? 2 then
        if is_none (c_recvErr s)
        then (c =? cClosed) && match c_sendErr s with Some e => e =? cClosed | None => false end
        else c =? cEOF
      else if prof =? 3 then
        if c_called s then c =? cClosed
        else (c =? cEOF) && (negb (is_none (c_recvErr s)) || returned s)
      else ((c =? cClosed) && c_called s) || ((c =? cEOF) && returned s)
  | RVal _ => false
  end.

Definition step (prof t : N) (s : st) (l : lab) : option st :=
  match l with
  | CSend x r =>
      if send_guard prof s r then
        match r with
        | ROk => Some (St (req s ++ [Some x]) (res s) (returned s) (c_sendErr s) (c_recvErr s)
                          (c_called s) (c_failed s) (s_recvErr s))
        | _ => Some (St (req s) (res s) (returned s)
                        (match c_sendErr s with
                         | Some e => Some e
                         | None => if is_none (c_recvErr s) then Some cEOF else None
                         end)
                        (c_recvErr s) (c_called s) true (s_recvErr s))
        end
      else None
  | CClose r =>
      match r with
      | ROk =>
          if is_none (c_sendErr s)
          then Some (St (req s ++ [None]) (res s) (returned s) (Some cClosed) (c_recvErr s)
                        true (c_failed s) (s_recvErr s))
          else Some (St (req s) (res s) (returned s) (c_sendErr s) (c_recvErr s)
                        true (c_failed s) (s_recvErr s))
      | _ => None
      end
  | CRecv r =>
      match c_recvErr s with
      | Some o => match r with
                  | RErr c i m => if trip_eqb o (c, i, m) then Some s else None
                  | _ => None
                  end
      | None =>
          match res s with
          | [] => None
          | inl y :: rest =>
              match r with
              | RVal y' => if y =? y' then Some (St (req s) rest (returned s) (c_sendErr s) None
                                                    (c_called s) (c_failed s) (s_recvErr s))
                           else None
              | _ => None
              end
          | inr e :: rest =>
              match r with
              | RErr c i m =>
                  if img_ok (wire t e) (c, i, m)
                  then Some (St (req s) rest (returned s) (c_sendErr s) (Some (c, i, m))
                                (c_called s) (c_failed s) (s_recvErr s))
                  else None
              | _ => None
              end
          end
      end
  | HRecv r =>
      if returned s then None else
      match s_recvErr s with
      | Some o => match r with
                  | RErr c i m => if trip_eqb o (c, i, m) then Some s else None
                  | _ => None
                  end
      | None =>
          match req s with
          | [] => None
          | Some x :: rest =>
              match r with
              | RVal x' => if x =? x' then Some (St rest (res s) (returned s) (c_sendErr s)
                                                    (c_recvErr s) (c_called s) (c_failed s) None)
                           else None
              | _ => None
              end
          | None :: rest =>
              match r with
              | RErr c i m =>
                  if c =? cEOF
                  then Some (St rest (res s) (returned s) (c_sendErr s) (c_recvErr s)
                                (c_called s) (c_failed s) (Some (c, i, m)))
                  else None
              | _ => None
              end
          end
      end
  | HSend y r =>
      if returned s then None else
      match r with
      | ROk => Some (St (req s) (res s ++ [inl y]) (returned s) (c_sendErr s) (c_recvErr s)
                        (c_called s) (c_failed s) (s_recvErr s))
      | _ => None
      end
  | HRet e =>
      if returned s then None else
      Some (St (req s) (res s ++ [inr e]) true (c_sendErr s) (c_recvErr s)
               (c_called s) (c_failed s) (s_recvErr s))
  end.

(* a global (interleaved) trace *)
Fixpoint run (prof t : N) (s : st) (tr : list lab) : option st :=
  match tr with
  | [] => Some s
  | l :: rest => match step prof t s l with Some s' => run prof t s' rest | None => None end
  end.

(* ------------------------------------------------------------------ the checker *)

(* The model run as a checker over per-side observation lists: advance the handler while its next
   label is enabled, otherwise the client. (Every cross-side enabling condition is monotone — it
   only waits for the other side to have progressed — so this decides whether SOME interleaving
   of the two lists is a trace; see StreamProofs.greedy_complete / greedy_sound.) *)
Fixpoint greedy (fuel : nat) (prof t : N) (s : st) (cl hl : list lab) : bool :=
  match fuel with
  | O => match cl, hl with [], [] => true | _, _ => false end
  | S f =>
      match hl with
      | h :: hl' =>
          match step prof t s h with
          | Some s' => greedy f prof t s' cl hl'
          | None =>
              match cl with
              | c :: cl' => match step prof t s c with
                            | Some s' => greedy f prof t s' cl' hl
                            | None => false
                            end
              | [] => false
              end
          end
      | [] =>
          match cl with
          | c :: cl' => match step prof t s c with
                        | Some s' => greedy f prof t s' cl' hl
                        | None => false
                        end
          | [] => true
          end
      end
  end.

Definition accepts (prof t : N) (cl hl : list lab) : bool :=
  forallb is_client cl && forallb (fun l => negb (is_client l)) hl &&
  greedy (List.length cl + List.length hl) prof t init cl hl.

(* where the checker stops (labels consumed per side): for replays *)
Fixpoint greedy_pos (fuel : nat) (prof t : N) (s : st) (cl hl : list lab) (i j : nat) : nat * nat :=
  match fuel with
  | O => (i, j)
  | S f =>
      match hl with
      | h :: hl' =>
          match step prof t s h with
          | Some s' => greedy_pos f prof t s' cl hl' i (S j)
          | None =>
              match cl with
              | c :: cl' => match step prof t s c with
                            | Some s' => greedy_pos f prof t s' cl' hl (S i) j
                            | None => (i, j)
                            end
              | [] => (i, j)
              end
          end
      | [] =>
          match cl with
          | c :: cl' => match step prof t s c with
                        | Some s' => greedy_pos f prof t s' cl' hl (S i) j
                        | None => (i, j)
                        end
          | [] => (i, j)
          end
      end
  end.
