(* Common/Bytes.v — little-endian byte encoders/decoders and an io.ReadFull-style reader over
   [list N] (a byte is an N below 256).  Model only; the lemmas are in BytesProofs.v.
   Data sizes are N; nat is used only for field widths (1,2,4,8) and list positions that
   were first checked against the list's length. *)
From Coq Require Import List NArith Bool.
Import ListNotations.
Local Open Scope N_scope.

Definition lenN {A} (l : list A) : N := N.of_nat (length l).

(* [encLE w n]: the w low-order bytes of n, least significant first (Go: byteOrder.PutUintXX
   after the uintXX(...) conversion, which is the truncation to 256^w). *)
Fixpoint encLE (w : nat) (n : N) : list N :=
  match w with
  | O => []
  | S w' => (n mod 256) :: encLE w' (n / 256)
  end.

Fixpoint decLE (bs : list N) : N :=
  match bs with
  | [] => 0
  | b :: r => b + 256 * decLE r
  end.

Definition enc8 := encLE 1.
Definition enc32 := encLE 4.
Definition enc64 := encLE 8.

Definition is_byte (b : N) : bool := b <? 256.
Definition all_bytes (bs : list N) : bool := forallb is_byte bs.

(* io.ReadFull(r, buf[:n]) on a reader holding exactly [bs]:
     n = 0                      -> success, nothing consumed
     no byte left               -> io.EOF
     fewer than n bytes left    -> io.ErrUnexpectedEOF
     otherwise                  -> the first n bytes and the rest. *)
Inductive rd_err := REOF | RUnexpectedEOF.
Inductive rd A := RdOk (a : A) (rest : list N) | RdErr (e : rd_err).
Arguments RdOk {A}. Arguments RdErr {A}.

Definition read_full (n : N) (bs : list N) : rd (list N) :=
  if n =? 0 then RdOk [] bs
  else match bs with
       | [] => RdErr REOF
       | _ => if lenN bs <? n then RdErr RUnexpectedEOF
              else RdOk (firstn (N.to_nat n) bs) (skipn (N.to_nat n) bs)
       end.

(* read a w-byte little-endian unsigned integer *)
Definition read_uint (w : nat) (bs : list N) : rd N :=
  match read_full (N.of_nat w) bs with
  | RdOk d rest => RdOk (decLE d) rest
  | RdErr e => RdErr e
  end.
