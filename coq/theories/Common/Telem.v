(* Common/Telem.v — executable copy of the half-open interval algebra of
   /repo/x/go/telem (time_stamp.go, time_range.go).  Model only: no proofs here
   (see TelemProofs.v).

   Go types:  TimeStamp = int64 (nanoseconds), TimeSpan = int64, TimeRange = {Start, End}.
   Here time stamps are unbounded [Z]; the only place where the Go code's int64
   wrap-around is observable in these functions is [TimeRange.Span] (End - Start), used
   by [Valid]/[MakeValid]; it is written explicitly ([wrap64]).  For stamps in
   [ts_min, ts_max] = [0, 2^63-1] the subtraction never wraps (TelemProofs.span_in_range). *)
From Coq Require Import ZArith Bool.
Local Open Scope Z_scope.

Definition TimeStamp := Z.
Definition TimeSpan := Z.

(* telem.TimeStampMin = 0, telem.TimeStampMax = ^uint64(0) >> 1 *)
Definition ts_min : TimeStamp := 0.
Definition ts_max : TimeStamp := 2 ^ 63 - 1.
Definition int64_min : Z := - 2 ^ 63.
Definition int64_max : Z := 2 ^ 63 - 1.

(* two's complement reduction of a mathematical integer to int64 *)
Definition wrap64 (z : Z) : Z := (z + 2 ^ 63) mod 2 ^ 64 - 2 ^ 63.

(* clamp.AddInt64: saturating addition *)
Definition clamp_add64 (a b : Z) : Z :=
  if (0 <? b) && (int64_max - b <? a) then int64_max
  else if (b <? 0) && (a <? int64_min - b) then int64_min
  else a + b.

Record TimeRange : Type := mkTR { tr_start : TimeStamp; tr_end : TimeStamp }.

Definition tr_eqb (a b : TimeRange) : bool :=
  (tr_start a =? tr_start b) && (tr_end a =? tr_end b).

(* TimeStamp.IsZero: ts == TimeStampMin *)
Definition ts_is_zero (ts : TimeStamp) : bool := ts =? ts_min.

(* TimeRangeMax / TimeRangeZero *)
Definition tr_max : TimeRange := mkTR ts_min ts_max.
Definition tr_zero : TimeRange := mkTR ts_min ts_min.

(* func (tr TimeRange) Span() TimeSpan { return TimeSpan(tr.End - tr.Start) }  — int64 *)
Definition tr_span (tr : TimeRange) : TimeSpan := wrap64 (tr_end tr - tr_start tr).

(* func (tr TimeRange) IsZero() *)
Definition tr_is_zero (tr : TimeRange) : bool := ts_is_zero (tr_start tr) && ts_is_zero (tr_end tr).

(* func (tr TimeRange) Valid() bool { return tr.Span() >= 0 } *)
Definition tr_valid (tr : TimeRange) : bool := 0 <=? tr_span tr.

(* func (tr TimeRange) Swap() *)
Definition tr_swap (tr : TimeRange) : TimeRange := mkTR (tr_end tr) (tr_start tr).

(* func (tr TimeRange) MakeValid() *)
Definition tr_make_valid (tr : TimeRange) : TimeRange := if tr_valid tr then tr else tr_swap tr.

(* func (ts TimeStamp) Range(ts2) *)
Definition ts_range (ts ts2 : TimeStamp) : TimeRange := mkTR ts ts2.

(* func (ts TimeStamp) SpanRange(span) TimeRange { return ts.Range(ts.Add(span)).MakeValid() } *)
Definition ts_span_range (ts : TimeStamp) (span : TimeSpan) : TimeRange :=
  tr_make_valid (ts_range ts (clamp_add64 ts span)).

(* func (tr TimeRange) ContainsStamp(stamp) bool { return stamp.AfterEq(tr.Start) && stamp.Before(tr.End) } *)
Definition contains_stamp (tr : TimeRange) (stamp : TimeStamp) : bool :=
  (tr_start tr <=? stamp) && (stamp <? tr_end tr).

(* func (tr TimeRange) ContainsRange(rng) bool { return rng.Start.AfterEq(tr.Start) && rng.End.BeforeEq(tr.End) } *)
Definition contains_range (tr rng : TimeRange) : bool :=
  (tr_start tr <=? tr_start rng) && (tr_end rng <=? tr_end tr).

(* func (tr TimeRange) OverlapsWith(rng TimeRange) bool {
     if tr == rng { return true }
     validTR := tr.MakeValid(); rng = rng.MakeValid()
     if rng.Start == validTR.Start { return true }
     if rng.End == validTR.Start || rng.Start == validTR.End { return false }
     return tr.ContainsStamp(rng.End) || tr.ContainsStamp(rng.Start) ||
            rng.ContainsStamp(tr.Start) || rng.ContainsStamp(tr.End) }
   Note: the four ContainsStamp tests use the ORIGINAL [tr] (not validTR) and the
   re-validated [rng], exactly as the Go code does. *)
Definition overlaps_with (tr rng : TimeRange) : bool :=
  if tr_eqb tr rng then true
  else
    let validTR := tr_make_valid tr in
    let rng := tr_make_valid rng in
    if tr_start rng =? tr_start validTR then true
    else if (tr_end rng =? tr_start validTR) || (tr_start rng =? tr_end validTR) then false
    else contains_stamp tr (tr_end rng) || contains_stamp tr (tr_start rng) ||
         contains_stamp rng (tr_start tr) || contains_stamp rng (tr_end tr).

(* func (tr TimeRange) BoundBy(bound TimeRange) TimeRange — four sequential clamps, order matters *)
Definition bound_by (tr bound : TimeRange) : TimeRange :=
  let tr := if tr_start tr <? tr_start bound then mkTR (tr_start bound) (tr_end tr) else tr in
  let tr := if tr_end tr <? tr_start bound then mkTR (tr_start tr) (tr_start bound) else tr in
  let tr := if tr_end bound <? tr_end tr then mkTR (tr_start tr) (tr_end bound) else tr in
  let tr := if tr_end bound <? tr_start tr then mkTR (tr_end bound) (tr_end tr) else tr in
  tr.

(* func (tr TimeRange) Union(other) *)
Definition tr_union (tr other : TimeRange) : TimeRange :=
  mkTR (Z.min (tr_start tr) (tr_start other)) (Z.max (tr_end tr) (tr_end other)).

(* func (tr TimeRange) Intersection(rng) *)
Definition tr_intersection (tr rng : TimeRange) : TimeRange :=
  if overlaps_with tr rng
  then mkTR (Z.max (tr_start tr) (tr_start rng)) (Z.min (tr_end tr) (tr_end rng))
  else tr_zero.

(* func (tr TimeRange) Split(ts) *)
Definition tr_split (tr : TimeRange) (ts : TimeStamp) : TimeRange * TimeRange :=
  (mkTR (tr_start tr) ts, mkTR ts (tr_end tr)).

(* A stamp representable as a non-negative int64: the documented domain of TimeStamp. *)
Definition ts_in_range (ts : Z) : Prop := ts_min <= ts <= ts_max.
Definition ts_in_rangeb (ts : Z) : bool := (ts_min <=? ts) && (ts <=? ts_max).
Definition tr_in_range (tr : TimeRange) : Prop := ts_in_range (tr_start tr) /\ ts_in_range (tr_end tr).
