(* Common/TelemProofs.v — lemmas about the interval algebra of Common/Telem.v. *)
From Coq Require Import ZArith Bool Lia.
From Synnax Require Import Common.Telem.
Local Open Scope Z_scope.

Lemma wrap64_id z : - 2 ^ 63 <= z < 2 ^ 63 -> wrap64 z = z.
Proof.
  intros H. unfold wrap64. rewrite Z.mod_small; lia.
Qed.

Lemma ts_in_rangeb_spec ts : ts_in_rangeb ts = true <-> ts_in_range ts.
Proof.
  unfold ts_in_rangeb, ts_in_range. rewrite andb_true_iff, !Z.leb_le. tauto.
Qed.

(* End - Start does not wrap for stamps in [0, 2^63-1] *)
Lemma span_in_range tr : tr_in_range tr -> tr_span tr = tr_end tr - tr_start tr.
Proof.
  intros [[? ?] [? ?]]. unfold tr_span, ts_min, ts_max in *. apply wrap64_id. lia.
Qed.

Lemma valid_in_range tr : tr_in_range tr -> tr_valid tr = (tr_start tr <=? tr_end tr).
Proof.
  intros H. unfold tr_valid. rewrite (span_in_range _ H).
  destruct (Z.leb_spec 0 (tr_end tr - tr_start tr)), (Z.leb_spec (tr_start tr) (tr_end tr)); lia.
Qed.

Lemma make_valid_of_valid tr : tr_in_range tr -> tr_start tr <= tr_end tr -> tr_make_valid tr = tr.
Proof.
  intros H Hle. unfold tr_make_valid. rewrite (valid_in_range _ H).
  destruct (Z.leb_spec (tr_start tr) (tr_end tr)); [reflexivity|lia].
Qed.

Lemma make_valid_of_invalid tr : tr_in_range tr -> tr_end tr < tr_start tr -> tr_make_valid tr = tr_swap tr.
Proof.
  intros H Hlt. unfold tr_make_valid. rewrite (valid_in_range _ H).
  destruct (Z.leb_spec (tr_start tr) (tr_end tr)); [lia|reflexivity].
Qed.

Lemma make_valid_in_range tr : tr_in_range tr -> tr_in_range (tr_make_valid tr).
Proof.
  intros H. unfold tr_make_valid. destruct (tr_valid tr); [exact H|].
  destruct H; split; assumption.
Qed.

Lemma make_valid_ordered tr : tr_in_range tr ->
  tr_start (tr_make_valid tr) <= tr_end (tr_make_valid tr).
Proof.
  intros H. destruct (Z_le_gt_dec (tr_start tr) (tr_end tr)).
  - rewrite make_valid_of_valid by assumption. assumption.
  - rewrite make_valid_of_invalid by (assumption || lia). simpl. lia.
Qed.

Lemma tr_eqb_eq a b : tr_eqb a b = true <-> a = b.
Proof.
  unfold tr_eqb. rewrite andb_true_iff, !Z.eqb_eq. destruct a, b; simpl. split.
  - intros [-> ->]. reflexivity.
  - intros H. inversion H. auto.
Qed.

Lemma span_range0 ts : ts_in_range ts -> ts_span_range ts 0 = mkTR ts ts.
Proof.
  intros H. unfold ts_span_range, clamp_add64. simpl.
  replace (ts + 0) with ts by lia. unfold ts_range.
  apply make_valid_of_valid; simpl; [split; assumption|lia].
Qed.

Lemma contains_stamp_spec tr s : contains_stamp tr s = true <-> tr_start tr <= s < tr_end tr.
Proof.
  unfold contains_stamp. rewrite andb_true_iff, Z.leb_le, Z.ltb_lt. tauto.
Qed.

Lemma contains_range_spec tr r :
  contains_range tr r = true <-> tr_start tr <= tr_start r /\ tr_end r <= tr_end tr.
Proof.
  unfold contains_range. rewrite andb_true_iff, !Z.leb_le. tauto.
Qed.

(* The mathematical content of OverlapsWith for two ordered (start <= end) ranges:
   equal starts, or the open-interval intersection test.  Covers zero-length ranges:
   [t,t) overlaps [a,b) iff a <= t < b, and [t,t) overlaps [u,u) iff t = u. *)
Definition overlaps_math (a b : TimeRange) : Prop :=
  tr_start a = tr_start b \/ (tr_start a < tr_end b /\ tr_start b < tr_end a).

Lemma overlaps_with_spec a b :
  tr_in_range a -> tr_in_range b ->
  tr_start a <= tr_end a -> tr_start b <= tr_end b ->
  overlaps_with a b = true <-> overlaps_math a b.
Proof.
  intros Ha Hb Hoa Hob. unfold overlaps_with, overlaps_math.
  destruct (tr_eqb a b) eqn:E.
  - apply tr_eqb_eq in E. subst b. split; auto.
  - rewrite (make_valid_of_valid a), (make_valid_of_valid b) by assumption.
    assert (Hne : a <> b) by (intros ->; rewrite (proj2 (tr_eqb_eq b b) eq_refl) in E; discriminate).
    destruct (Z.eqb_spec (tr_start b) (tr_start a)) as [e|ne].
    + split; auto.
    + destruct (Z.eqb_spec (tr_end b) (tr_start a)) as [e1|n1]; simpl.
      * split; [discriminate|]. intros [?|[? ?]]; lia.
      * destruct (Z.eqb_spec (tr_start b) (tr_end a)) as [e2|n2]; simpl.
        -- split; [discriminate|]. intros [?|[? ?]]; lia.
        -- rewrite !orb_true_iff, !contains_stamp_spec. split.
           ++ intros [[[H|H]|H]|H]; right; lia.
           ++ intros [H|[H1 H2]]; [lia|].
              destruct (Z_lt_le_dec (tr_start b) (tr_start a)).
              ** left. right. lia.
              ** left. left. right. lia.
Qed.

Lemma overlaps_math_sym a b : overlaps_math a b <-> overlaps_math b a.
Proof. unfold overlaps_math. intuition lia. Qed.

(* An inverted range is treated as its swap, whenever the receiver is ordered. *)
Lemma overlaps_with_make_valid a b :
  tr_in_range a -> tr_in_range b -> tr_start a <= tr_end a ->
  overlaps_with a b = overlaps_with a (tr_make_valid b).
Proof.
  intros Ha Hb Hoa.
  destruct (Z_le_gt_dec (tr_start b) (tr_end b)).
  - rewrite make_valid_of_valid by assumption. reflexivity.
  - rewrite (make_valid_of_invalid b) by (assumption || lia).
    unfold overlaps_with.
    assert (Hsw : tr_make_valid (tr_swap b) = tr_swap b).
    { apply make_valid_of_valid; [destruct Hb; split; assumption|simpl; lia]. }
    rewrite Hsw, (make_valid_of_invalid b) by (assumption || lia).
    destruct (tr_eqb a b) eqn:E1.
    { apply tr_eqb_eq in E1. subst. lia. }
    destruct (tr_eqb a (tr_swap b)) eqn:E2; [|reflexivity].
    apply tr_eqb_eq in E2. rewrite E2.
    rewrite Hsw. rewrite Z.eqb_refl. reflexivity.
Qed.

Ltac ltb_cases :=
  repeat match goal with
  | |- context [if ?a <? ?b then _ else _] =>
      lazymatch a with context [if _ then _ else _] => fail | _ => idtac end;
      lazymatch b with context [if _ then _ else _] => fail | _ => idtac end;
      destruct (Z.ltb_spec a b); simpl
  end.

(* BoundBy: the result lies inside the bound, for an ordered bound *)
Lemma bound_by_within tr bound :
  tr_start bound <= tr_end bound ->
  let r := bound_by tr bound in
  tr_start bound <= tr_start r <= tr_end bound /\ tr_start bound <= tr_end r <= tr_end bound.
Proof.
  intros Hb. unfold bound_by. destruct tr as [s e], bound as [bs be]; simpl in *.
  ltb_cases; lia.
Qed.

(* BoundBy of overlapping ordered ranges is their intersection *)
Lemma bound_by_intersection tr bound :
  tr_start tr <= tr_end tr -> tr_start bound <= tr_end bound ->
  tr_start tr < tr_end bound -> tr_start bound < tr_end tr ->
  bound_by tr bound = mkTR (Z.max (tr_start tr) (tr_start bound)) (Z.min (tr_end tr) (tr_end bound)).
Proof.
  intros. unfold bound_by. destruct tr as [s e], bound as [bs be]; simpl in *.
  ltb_cases; f_equal; lia.
Qed.
