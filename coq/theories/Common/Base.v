(* Common helpers for case files evaluated by the correspondence check. *)
From Coq Require Import List Bool NArith.
Import ListNotations.

Fixpoint find_idx_from {A} (f : A -> bool) (l : list A) (i : nat) : list nat :=
  match l with
  | [] => []
  | x :: xs => if f x then i :: find_idx_from f xs (S i) else find_idx_from f xs (S i)
  end.
(* indices (from 0) of the elements satisfying f *)
Definition find_idx {A} (f : A -> bool) (l : list A) : list nat := find_idx_from f l 0.

Lemma find_idx_from_nil {A} (f : A -> bool) l i :
  find_idx_from f l i = [] <-> forallb (fun x => negb (f x)) l = true.
Proof.
  revert i; induction l as [|x xs IH]; intros i; simpl.
  - tauto.
  - destruct (f x); simpl.
    + split; discriminate.
    + apply IH.
Qed.
