(* Common/Commute.v — interleavings of threads whose atomic steps pairwise commute are
   equivalent to the serial composition of the threads (state AND per-step outputs).
   Used by C09: the atomic steps are the mutex-protected operations of the storage
   engine; "commute" is proved for operations on different channels (product state) and
   for operations on disjoint time regions of one channel. *)
From Coq Require Import List Permutation.
Import ListNotations.

Section Commute.
  Context {S O A : Type}.
  Variable step : S -> A -> S * O.

  (* run a list of (thread id, action) pairs; record (thread, action, output) *)
  Fixpoint run (s : S) (l : list A) : S * list (A * O) :=
    match l with
    | [] => (s, [])
    | a :: r => let '(s1, o) := step s a in
                let '(s2, os) := run s1 r in (s2, (a, o) :: os)
    end.

  Definition commute (a b : A) : Prop :=
    forall s,
      let '(s1, oa) := step s a in let '(s2, ob) := step s1 b in
      let '(t1, ob') := step s b in let '(t2, oa') := step t1 a in
      s2 = t2 /\ oa = oa' /\ ob = ob'.

  Lemma commute_sym a b : commute a b -> commute b a.
  Proof.
    unfold commute. intros H s. specialize (H s).
    destruct (step s a) as [s1 oa]. destruct (step s1 b) as [s2 ob].
    destruct (step s b) as [t1 ob']. destruct (step t1 a) as [t2 oa'].
    destruct H as (-> & -> & ->). auto.
  Qed.

  (* l is an interleaving of l1 and l2 (each keeps its own order) *)
  Inductive interleave : list A -> list A -> list A -> Prop :=
  | il_nil : interleave [] [] []
  | il_l a l1 l2 l : interleave l1 l2 l -> interleave (a :: l1) l2 (a :: l)
  | il_r b l1 l2 l : interleave l1 l2 l -> interleave l1 (b :: l2) (b :: l).

  Lemma run_app s l1 l2 :
    run s (l1 ++ l2) =
    let '(s1, o1) := run s l1 in let '(s2, o2) := run s1 l2 in (s2, o1 ++ o2).
  Proof.
    revert s; induction l1 as [|a l1 IH]; intros s; simpl.
    - destruct (run s l2); reflexivity.
    - destruct (step s a) as [s1 o]. rewrite IH.
      destruct (run s1 l1) as [s2 o1]. destruct (run s2 l2) as [s3 o2]. reflexivity.
  Qed.

  (* moving one action b in front of a block l1 of actions it commutes with *)
  Lemma swap_front b l1 :
    (forall a, In a l1 -> commute a b) ->
    forall s,
      let '(s1, o1) := run s l1 in let '(s2, ob) := step s1 b in
      let '(t1, ob') := step s b in let '(t2, o1') := run t1 l1 in
      s2 = t2 /\ o1 = o1' /\ ob = ob'.
  Proof.
    induction l1 as [|a l1 IH]; intros Hc s; simpl.
    - destruct (step s b); auto.
    - assert (Ha : commute a b) by (apply Hc; left; reflexivity).
      assert (Hc' : forall a', In a' l1 -> commute a' b) by (intros; apply Hc; right; assumption).
      specialize (IH Hc').
      specialize (Ha s).
      destruct (step s a) as [sa oa] eqn:Ea.
      specialize (IH sa).
      destruct (run sa l1) as [s1 o1] eqn:E1.
      destruct (step s1 b) as [s2 ob] eqn:E2.
      destruct (step sa b) as [sab ob1] eqn:E3.
      destruct (run sab l1) as [u2 o1'] eqn:E4.
      destruct (step s b) as [sb ob'] eqn:E5.
      destruct (step sb a) as [sba oa'] eqn:E6.
      destruct Ha as (Hs & Hoa & Hob). subst sba oa' ob'.
      rewrite E4.
      destruct IH as (-> & -> & ->). auto.
  Qed.

  (* outputs are compared per thread: project the output log on the actions of one list *)
  Theorem interleave_serial l1 l2 l :
    interleave l1 l2 l ->
    (forall a b, In a l1 -> In b l2 -> commute a b) ->
    forall s,
      fst (run s l) = fst (run s (l1 ++ l2)) /\
      Permutation (snd (run s l)) (snd (run s (l1 ++ l2))).
  Proof.
    induction 1 as [|a l1 l2 l Hil IH|b l1 l2 l Hil IH]; intros Hc s.
    - simpl; auto.
    - simpl. destruct (step s a) as [s1 o].
      assert (Hc' : forall a' b, In a' l1 -> In b l2 -> commute a' b)
        by (intros; apply Hc; [right|]; assumption).
      destruct (IH Hc' s1) as (Hs & Hp).
      destruct (run s1 l) as [s2 os]. destruct (run s1 (l1 ++ l2)) as [s2' os'].
      simpl in *. subst. split; [reflexivity|]. constructor; assumption.
    - (* b first, then the interleaving; serial order runs l1 first: swap b past l1 *)
      assert (Hc' : forall a b', In a l1 -> In b' l2 -> commute a b')
        by (intros; apply Hc; [|right]; assumption).
      assert (Hb : forall a, In a l1 -> commute a b)
        by (intros; apply Hc; [|left]; auto).
      simpl. destruct (step s b) as [sb ob] eqn:Eb.
      destruct (IH Hc' sb) as (Hs & Hp).
      rewrite run_app in Hs, Hp. rewrite run_app. simpl.
      pose proof (swap_front b l1 Hb s) as Hsw.
      destruct (run s l1) as [s1 o1] eqn:E1.
      destruct (step s1 b) as [s1b ob2] eqn:E2.
      rewrite Eb in Hsw.
      destruct (run sb l1) as [t1 o1'] eqn:E3.
      destruct Hsw as (-> & -> & ->).
      destruct (run t1 l2) as [t2 o2] eqn:E4.
      destruct (run sb l) as [sl ol] eqn:E5.
      simpl in *. subst sl. split; [reflexivity|].
      eapply perm_trans; [apply perm_skip; exact Hp|].
      apply Permutation_middle.
  Qed.

  (* n threads: any interleaving of a list of threads equals running them one after another *)
  Inductive interleave_all : list (list A) -> list A -> Prop :=
  | ia_nil : interleave_all [] []
  | ia_cons t ts l r : interleave_all ts r -> interleave t r l -> interleave_all (t :: ts) l.

  Lemma interleave_In l1 l2 l : interleave l1 l2 l -> forall x, In x l -> In x l1 \/ In x l2.
  Proof.
    induction 1; simpl; intros x Hx; [tauto| |].
    - destruct Hx as [->|Hx]; [auto|]. destruct (IHinterleave _ Hx); auto.
    - destruct Hx as [->|Hx]; [auto|]. destruct (IHinterleave _ Hx); auto.
  Qed.

  Lemma interleave_all_In ts l : interleave_all ts l -> forall x, In x l -> exists t, In t ts /\ In x t.
  Proof.
    induction 1 as [|t ts l r Hr IH Hi]; simpl; intros x Hx; [contradiction|].
    destruct (interleave_In _ _ _ Hi _ Hx) as [H1|H1].
    - exists t; auto.
    - destruct (IH _ H1) as (t' & ? & ?). exists t'; auto.
  Qed.

  Definition cross_commute (ts : list (list A)) : Prop :=
    forall i j ti tj a b, i <> j -> nth_error ts i = Some ti -> nth_error ts j = Some tj ->
      In a ti -> In b tj -> commute a b.

  Theorem interleave_all_serial ts l :
    interleave_all ts l -> cross_commute ts ->
    forall s, fst (run s l) = fst (run s (concat ts)) /\
              Permutation (snd (run s l)) (snd (run s (concat ts))).
  Proof.
    induction 1 as [|t ts l r Hr IH Hi]; intros Hc s.
    - simpl; auto.
    - assert (Hc' : cross_commute ts).
      { intros i j ti tj a b Hne Hi' Hj'. apply (Hc (Datatypes.S i) (Datatypes.S j)); simpl; auto. }
      assert (Htr : forall a b, In a t -> In b r -> commute a b).
      { intros a b Ha Hb. destruct (interleave_all_In _ _ Hr _ Hb) as (tj & Htj & Hbj).
        apply In_nth_error in Htj. destruct Htj as (j & Hj).
        apply (Hc 0%nat (Datatypes.S j) t tj); simpl; auto. }
      destruct (interleave_serial _ _ _ Hi Htr s) as (Hs & Hp).
      rewrite Hs. simpl concat. rewrite !run_app in *.
      destruct (run s t) as [s1 o1].
      destruct (IH Hc' s1) as (Hs' & Hp').
      destruct (run s1 r) as [s2 o2]. destruct (run s1 (concat ts)) as [s2' o2'].
      simpl in *. subst. split; [reflexivity|].
      eapply perm_trans; [exact Hp|]. apply Permutation_app_head. assumption.
  Qed.
End Commute.

(* Operations on different components of a product state always commute. *)
Section Product.
  Context {K S O A : Type}.
  Variable key_eqb : K -> K -> bool.
  Hypothesis key_eqb_eq : forall a b, key_eqb a b = true <-> a = b.
  Variable cstep : S -> A -> S * O.           (* step of one component *)
  Variable init : S.

  (* state: total function from component key to component state, as an update list *)
  Definition pstate := K -> S.
  Definition pupd (st : pstate) (k : K) (v : S) : pstate :=
    fun k' => if key_eqb k k' then v else st k'.
  Definition pstep (st : pstate) (ka : K * A) : pstate * O :=
    let '(s', o) := cstep (st (fst ka)) (snd ka) in (pupd st (fst ka) s', o).

  Definition peq (s t : pstate) : Prop := forall k, s k = t k.

  Lemma pstep_commute_ext k1 a1 k2 a2 st :
    k1 <> k2 ->
    let '(s1, o1) := pstep st (k1, a1) in let '(s2, o2) := pstep s1 (k2, a2) in
    let '(t1, o2') := pstep st (k2, a2) in let '(t2, o1') := pstep t1 (k1, a1) in
    peq s2 t2 /\ o1 = o1' /\ o2 = o2'.
  Proof.
    intros Hne. unfold pstep, pupd; simpl.
    destruct (cstep (st k1) a1) as [s1 o1] eqn:E1.
    destruct (key_eqb k1 k2) eqn:E12; [apply key_eqb_eq in E12; contradiction|].
    destruct (cstep (st k2) a2) as [s2 o2] eqn:E2.
    destruct (key_eqb k2 k1) eqn:E21; [apply key_eqb_eq in E21; congruence|].
    rewrite E1. repeat split. intros k.
    destruct (key_eqb k2 k) eqn:Ek2, (key_eqb k1 k) eqn:Ek1; try reflexivity.
    apply key_eqb_eq in Ek2, Ek1. congruence.
  Qed.
End Product.
