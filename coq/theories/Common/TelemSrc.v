(* Common/TelemSrc.v — the hand-written interval algebra of Common/Telem.v is EQUAL to the Gallina that
   translator/go2coq regenerates from x/go/telem/{time_stamp,time_range,types.gen}.go and x/go/clamp/clamp.go on
   every run (Generated/Src_Telem.v).  If the Go source of one of these functions changes its meaning, the
   corresponding lemma below stops checking. *)
From Coq Require Import ZArith Bool Lia.
From Synnax Require Import Common.Telem Common.TelemProofs.
From Synnax Require Generated.Src_Telem.
Module S := Generated.Src_Telem.
Local Open Scope Z_scope.

Definition src (tr : TimeRange) : S.TimeRange := S.mkTimeRange (tr_start tr) (tr_end tr).
Definition unsrc (tr : S.TimeRange) : TimeRange := mkTR (S.TimeRange_Start tr) (S.TimeRange_End tr).

Lemma src_unsrc tr : src (unsrc tr) = tr.  Proof. destruct tr; reflexivity. Qed.
Lemma unsrc_src tr : unsrc (src tr) = tr.  Proof. destruct tr; reflexivity. Qed.

Lemma wrap_s_64 z : S.wrap_s 64 z = wrap64 z.
Proof. reflexivity. Qed.

Lemma wrap64_range z : - 2 ^ 63 <= wrap64 z < 2 ^ 63.
Proof. unfold wrap64. pose proof (Z.mod_pos_bound (z + 2 ^ 63) (2 ^ 64) ltac:(lia)). lia. Qed.

Lemma wrap64_idem z : wrap64 (wrap64 z) = wrap64 z.
Proof. apply wrap64_id. apply wrap64_range. Qed.

Lemma consts_from_source : S.TimeStampMin = ts_min /\ S.TimeStampMax = ts_max /\
                           unsrc S.TimeRangeMax = tr_max /\ unsrc S.TimeRangeZero = tr_zero.
Proof. repeat split; vm_compute; reflexivity. Qed.

Lemma is_zero_from_source ts : S.TimeStamp_IsZero ts = ts_is_zero ts.
Proof. reflexivity. Qed.

Lemma span_from_source tr : S.TimeRange_Span (src tr) = tr_span tr.
Proof. unfold S.TimeRange_Span, tr_span, src. cbn [S.TimeRange_Start S.TimeRange_End].
       rewrite !wrap_s_64. apply wrap64_idem. Qed.

Lemma valid_from_source tr : S.TimeRange_Valid (src tr) = tr_valid tr.
Proof. unfold S.TimeRange_Valid, tr_valid. rewrite span_from_source. apply Z.geb_leb. Qed.

Lemma swap_from_source tr : S.TimeRange_Swap (src tr) = src (tr_swap tr).
Proof. reflexivity. Qed.

Lemma make_valid_from_source tr : S.TimeRange_MakeValid (src tr) = src (tr_make_valid tr).
Proof. unfold S.TimeRange_MakeValid, tr_make_valid. rewrite valid_from_source.
       destruct (tr_valid tr); [reflexivity|apply swap_from_source]. Qed.

Lemma tr_is_zero_from_source tr : S.TimeRange_IsZero (src tr) = tr_is_zero tr.
Proof. reflexivity. Qed.

Lemma contains_stamp_from_source tr ts : S.TimeRange_ContainsStamp (src tr) ts = contains_stamp tr ts.
Proof. unfold S.TimeRange_ContainsStamp, S.TimeStamp_AfterEq, S.TimeStamp_Before, contains_stamp, src.
       cbn [S.TimeRange_Start S.TimeRange_End]. now rewrite Z.geb_leb. Qed.

Lemma contains_range_from_source tr rng : S.TimeRange_ContainsRange (src tr) (src rng) = contains_range tr rng.
Proof. unfold S.TimeRange_ContainsRange, S.TimeStamp_AfterEq, S.TimeStamp_BeforeEq, contains_range, src.
       cbn [S.TimeRange_Start S.TimeRange_End]. now rewrite Z.geb_leb. Qed.

Lemma eqb_from_source a b : S.TimeRange_eqb (src a) (src b) = tr_eqb a b.
Proof. reflexivity. Qed.

Lemma overlaps_with_from_source tr rng : S.TimeRange_OverlapsWith (src tr) (src rng) = overlaps_with tr rng.
Proof.
  unfold S.TimeRange_OverlapsWith, overlaps_with. rewrite eqb_from_source.
  destruct (tr_eqb tr rng); [reflexivity|]. rewrite !make_valid_from_source.
  cbv zeta. unfold src at 1 2 3 4 5 6. cbn [S.TimeRange_Start S.TimeRange_End].
  destruct (tr_start (tr_make_valid rng) =? tr_start (tr_make_valid tr)); [reflexivity|].
  destruct ((tr_end (tr_make_valid rng) =? tr_start (tr_make_valid tr)) ||
            (tr_start (tr_make_valid rng) =? tr_end (tr_make_valid tr))); [reflexivity|].
  fold (src (tr_make_valid rng)). fold (src tr).
  now rewrite !contains_stamp_from_source.
Qed.

Lemma bound_by_from_source tr bound : S.TimeRange_BoundBy (src tr) (src bound) = src (bound_by tr bound).
Proof.
  unfold S.TimeRange_BoundBy, bound_by, S.TimeStamp_After, S.TimeStamp_Before, src.
  destruct tr as [s e], bound as [bs be].
  cbn [tr_start tr_end S.TimeRange_Start S.TimeRange_End]. rewrite !Z.gtb_ltb.
  repeat (match goal with
          | |- context [if ?a <? ?b then _ else _] => is_var a; is_var b; destruct (Z.ltb_spec a b)
          end; cbn [tr_start tr_end S.TimeRange_Start S.TimeRange_End]; rewrite ?Z.gtb_ltb);
    try reflexivity; exfalso; lia.
Qed.

Lemma union_from_source tr other : S.TimeRange_Union (src tr) (src other) = src (tr_union tr other).
Proof. reflexivity. Qed.

Lemma intersection_from_source tr rng : S.TimeRange_Intersection (src tr) (src rng) = src (tr_intersection tr rng).
Proof.
  unfold S.TimeRange_Intersection, tr_intersection. rewrite overlaps_with_from_source.
  destruct (overlaps_with tr rng); reflexivity.
Qed.

(* clamp.AddInt64 and TimeStamp.Add / SpanRange: equal on int64 arguments (the only arguments a Go caller can pass) *)
Definition int64 (z : Z) : Prop := - 2 ^ 63 <= z < 2 ^ 63.

Lemma clamp_add_from_source a b : int64 a -> int64 b -> S.clamp_AddInt64 a b = clamp_add64 a b.
Proof.
  unfold int64, S.clamp_AddInt64, clamp_add64, int64_max, int64_min. intros Ha Hb.
  rewrite !Z.gtb_ltb.
  rewrite (wrap_s_64 (a + b)), (wrap_s_64 (2 ^ 63 - 1 - b)), (wrap_s_64 (- 2 ^ 63 - b)).
  destruct (Z.ltb_spec 0 b) as [Hp|Hp]; cbn [andb].
  - rewrite (wrap64_id (2 ^ 63 - 1 - b)) by lia.
    destruct (Z.ltb_spec (2 ^ 63 - 1 - b) a) as [H1|H1]; [reflexivity|].
    destruct (Z.ltb_spec b 0) as [H2|H2]; [lia|]. cbn [andb]. apply wrap64_id. lia.
  - destruct (Z.ltb_spec b 0) as [H2|H2]; cbn [andb].
    + rewrite (wrap64_id (- 2 ^ 63 - b)) by lia.
      destruct (Z.ltb_spec a (- 2 ^ 63 - b)) as [H1|H1]; [reflexivity|]. apply wrap64_id. lia.
    + apply wrap64_id. lia.
Qed.

Lemma clamp_add64_range a b : int64 a -> int64 b -> int64 (clamp_add64 a b).
Proof.
  unfold int64, clamp_add64, int64_max, int64_min. intros Ha Hb.
  destruct (Z.ltb_spec 0 b); cbn [andb].
  - destruct (Z.ltb_spec (2 ^ 63 - 1 - b) a); [lia|]. destruct (Z.ltb_spec b 0); cbn [andb]; lia.
  - destruct (Z.ltb_spec b 0); cbn [andb]; [|lia]. destruct (Z.ltb_spec a (- 2 ^ 63 - b)); lia.
Qed.

Lemma add_from_source ts span : int64 ts -> int64 span -> S.TimeStamp_Add ts span = clamp_add64 ts span.
Proof.
  intros Ha Hb. unfold S.TimeStamp_Add.
  rewrite (wrap_s_64 ts), (wrap_s_64 span), (wrap64_id ts), (wrap64_id span) by assumption.
  rewrite clamp_add_from_source by assumption.
  rewrite wrap_s_64. apply wrap64_id. now apply clamp_add64_range.
Qed.

Lemma span_range_from_source ts span :
  int64 ts -> int64 span -> S.TimeStamp_SpanRange ts span = src (ts_span_range ts span).
Proof.
  intros Ha Hb. unfold S.TimeStamp_SpanRange, ts_span_range, S.TimeStamp_Range, ts_range.
  rewrite add_from_source by assumption. apply (make_valid_from_source (mkTR ts (clamp_add64 ts span))).
Qed.

(* Everything at once: the interval algebra the cesium models (C01, C03, C04, C09, C10) are written over is the one
   the current Go source defines. *)
Theorem telem_from_source :
  (forall tr ts, S.TimeRange_ContainsStamp (src tr) ts = contains_stamp tr ts) /\
  (forall tr rng, S.TimeRange_ContainsRange (src tr) (src rng) = contains_range tr rng) /\
  (forall tr rng, S.TimeRange_OverlapsWith (src tr) (src rng) = overlaps_with tr rng) /\
  (forall tr b, S.TimeRange_BoundBy (src tr) (src b) = src (bound_by tr b)) /\
  (forall tr, S.TimeRange_MakeValid (src tr) = src (tr_make_valid tr)) /\
  (forall tr, S.TimeRange_Span (src tr) = tr_span tr) /\
  (forall tr rng, S.TimeRange_Intersection (src tr) (src rng) = src (tr_intersection tr rng)) /\
  (forall tr o, S.TimeRange_Union (src tr) (src o) = src (tr_union tr o)) /\
  (forall ts span, int64 ts -> int64 span -> S.TimeStamp_SpanRange ts span = src (ts_span_range ts span)) /\
  (S.TimeStampMin = ts_min /\ S.TimeStampMax = ts_max).
Proof.
  repeat split; intros;
    auto using contains_stamp_from_source, contains_range_from_source, overlaps_with_from_source,
      bound_by_from_source, make_valid_from_source, span_from_source, intersection_from_source,
      union_from_source, span_range_from_source.
Qed.
