(* Common/BytesProofs.v — round-trip and length lemmas for Common/Bytes.v *)
From Coq Require Import List NArith Bool Lia PeanoNat.
Import ListNotations.
From Synnax Require Import Common.Bytes.
Local Open Scope N_scope.

Lemma lenN_nil {A} : lenN (@nil A) = 0.
Proof. reflexivity. Qed.

Lemma lenN_cons {A} (x : A) l : lenN (x :: l) = 1 + lenN l.
Proof. unfold lenN. cbn [length]. lia. Qed.

Lemma lenN_app {A} (l1 l2 : list A) : lenN (l1 ++ l2) = lenN l1 + lenN l2.
Proof. unfold lenN. rewrite app_length. lia. Qed.

Lemma lenN_0 {A} (l : list A) : lenN l = 0 -> l = [].
Proof. destruct l; [reflexivity|]. rewrite lenN_cons. lia. Qed.

Lemma lenN_to_nat {A} (l : list A) : N.to_nat (lenN l) = length l.
Proof. unfold lenN. lia. Qed.

Lemma encLE_length w n : length (encLE w n) = w.
Proof. revert n; induction w as [|w IH]; intros n; cbn [encLE length]; [reflexivity|]. now rewrite IH. Qed.

Lemma encLE_lenN w n : lenN (encLE w n) = N.of_nat w.
Proof. unfold lenN. now rewrite encLE_length. Qed.

Lemma encLE_all_bytes w n : all_bytes (encLE w n) = true.
Proof.
  revert n; induction w as [|w IH]; intros n; cbn [encLE all_bytes forallb]; [reflexivity|].
  apply andb_true_intro; split; [|apply IH].
  unfold is_byte. apply N.ltb_lt. apply N.mod_lt. lia.
Qed.

(* decoding what was encoded gives the value truncated to w bytes *)
Lemma decLE_encLE w n : decLE (encLE w n) = n mod 256 ^ N.of_nat w.
Proof.
  revert n; induction w as [|w IH]; intros n.
  - cbn [encLE decLE]. change (N.of_nat 0) with 0. rewrite N.pow_0_r, N.mod_1_r. reflexivity.
  - cbn [encLE decLE]. rewrite IH.
    replace (N.of_nat (S w)) with (N.succ (N.of_nat w)) by lia.
    rewrite N.pow_succ_r by lia.
    rewrite (N.mod_mul_r n 256 (256 ^ N.of_nat w)) by (try apply N.pow_nonzero; lia). lia.
Qed.

Lemma decLE_encLE_small w n : n < 256 ^ N.of_nat w -> decLE (encLE w n) = n.
Proof. intros H. rewrite decLE_encLE. now apply N.mod_small. Qed.

(* the encoding is injective below the width's range *)
Lemma encLE_inj w a b : a < 256 ^ N.of_nat w -> b < 256 ^ N.of_nat w ->
  encLE w a = encLE w b -> a = b.
Proof.
  intros Ha Hb E. rewrite <- (decLE_encLE_small w a Ha), <- (decLE_encLE_small w b Hb).
  now rewrite E.
Qed.

Lemma decLE_bound bs : all_bytes bs = true -> decLE bs < 256 ^ lenN bs.
Proof.
  induction bs as [|b r IH]; intros H.
  - cbn. lia.
  - cbn [all_bytes forallb] in H. apply andb_prop in H as [Hb Hr].
    unfold is_byte in Hb. apply N.ltb_lt in Hb. specialize (IH Hr).
    rewrite lenN_cons. cbn [decLE].
    replace (1 + lenN r) with (N.succ (lenN r)) by lia. rewrite N.pow_succ_r by lia. nia.
Qed.

(* re-encoding what was decoded gives the same bytes *)
Lemma encLE_decLE bs : all_bytes bs = true -> encLE (length bs) (decLE bs) = bs.
Proof.
  induction bs as [|b r IH]; intros H; [reflexivity|].
  cbn [all_bytes forallb] in H. apply andb_prop in H as [Hb Hr].
  unfold is_byte in Hb. apply N.ltb_lt in Hb.
  cbn [length encLE decLE].
  replace (b + 256 * decLE r) with (b + decLE r * 256) by lia.
  rewrite N.mod_add by lia. rewrite N.div_add by lia.
  rewrite (N.mod_small b) by lia. rewrite (N.div_small b) by lia. cbn [N.add].
  now rewrite IH.
Qed.

(* ---- reader ---- *)
Lemma read_full_app d rest : read_full (lenN d) (d ++ rest) = RdOk d rest.
Proof.
  unfold read_full. destruct (lenN d =? 0) eqn:E.
  - apply N.eqb_eq in E. apply lenN_0 in E. subst d. reflexivity.
  - apply N.eqb_neq in E. destruct d as [|x d]; [now rewrite lenN_nil in E|].
    cbn [app]. change (x :: d ++ rest) with ((x :: d) ++ rest).
    rewrite lenN_app. destruct (lenN (x :: d) + lenN rest <? lenN (x :: d)) eqn:L.
    + apply N.ltb_lt in L. lia.
    + rewrite lenN_to_nat. rewrite firstn_app, skipn_app, Nat.sub_diag.
      rewrite firstn_all, skipn_all. cbn [firstn skipn]. now rewrite app_nil_r.
Qed.

Lemma read_full_app' n d rest : n = lenN d -> read_full n (d ++ rest) = RdOk d rest.
Proof. intros ->. apply read_full_app. Qed.

Lemma read_full_ok n bs d rest :
  read_full n bs = RdOk d rest -> bs = d ++ rest /\ lenN d = n.
Proof.
  unfold read_full. destruct (n =? 0) eqn:E.
  - apply N.eqb_eq in E. intros H; inversion H; subst. split; reflexivity.
  - destruct bs as [|b bs]; [discriminate|].
    destruct (lenN (b :: bs) <? n) eqn:L; [discriminate|].
    apply N.ltb_ge in L. intros H; inversion H; subst. split.
    + now rewrite firstn_skipn.
    + unfold lenN in *. rewrite firstn_length. lia.
Qed.

Lemma read_full_err n bs e :
  read_full n bs = RdErr e ->
  lenN bs < n /\ (e = REOF <-> bs = []).
Proof.
  unfold read_full. destruct (n =? 0) eqn:E; [discriminate|]. apply N.eqb_neq in E.
  destruct bs as [|b bs].
  - intros H; inversion H. rewrite lenN_nil. split; [lia|tauto].
  - destruct (lenN (b :: bs) <? n) eqn:L; [|discriminate]. apply N.ltb_lt in L.
    intros H; inversion H. split; [exact L|]. split; discriminate.
Qed.

Lemma read_full_total n bs :
  (exists d rest, read_full n bs = RdOk d rest) \/ (exists e, read_full n bs = RdErr e).
Proof. destruct (read_full n bs); eauto. Qed.

Lemma read_uint_enc w n rest :
  n < 256 ^ N.of_nat w -> read_uint w (encLE w n ++ rest) = RdOk n rest.
Proof.
  intros H. unfold read_uint.
  rewrite (read_full_app' (N.of_nat w) (encLE w n) rest) by (now rewrite encLE_lenN).
  now rewrite decLE_encLE_small.
Qed.

Lemma read_uint_ok w bs n rest :
  read_uint w bs = RdOk n rest -> lenN bs = N.of_nat w + lenN rest.
Proof.
  unfold read_uint. destruct (read_full (N.of_nat w) bs) as [d r|e] eqn:E; [|discriminate].
  intros H; inversion H; subst. apply read_full_ok in E as [-> L]. rewrite lenN_app. lia.
Qed.
