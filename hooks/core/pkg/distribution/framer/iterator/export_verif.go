//go:build verif

package iterator

import (
	"context"

	"github.com/synnaxlabs/alamos"
)

// VerifNewSynchronizer returns the response synchronizer of an iterator over nodeCount
// leaseholders as a plain function: it reports the response forwarded downstream, if any.
func VerifNewSynchronizer(nodeCount int) func(Response) (Response, bool) {
	s := newSynchronizer(nodeCount, alamos.Instrumentation{}).(*synchronizer)
	return func(r Response) (Response, bool) {
		o, ok, _ := s.sync(context.Background(), r)
		return o, ok
	}
}
