//go:build verif

package codec

import (
	"github.com/synnaxlabs/synnax/pkg/distribution/channel"
	"github.com/synnaxlabs/x/telem"
)

// VerifUpdate pushes a channel-set update exactly as Update does after it has retrieved
// the channels (it calls the unexported update), without needing a channel service.
func (c *Codec) VerifUpdate(keys channel.Keys, keyDataTypes map[channel.Key]telem.DataType) {
	c.update(keys, keyDataTypes)
}
