//go:build verif

package channel

import (
	"context"

	"github.com/synnaxlabs/x/errors"
	"github.com/synnaxlabs/x/math"
)

// VerifReopen opens a second Service over exactly the same configuration (cluster DB,
// time-series engine, transport, ontology, ...) as s, the way a restart of the node's
// channel service would. The transport handlers are re-bound to the new service.
func (s *Service) VerifReopen(ctx context.Context) (*Service, error) {
	return OpenService(ctx, s.cfg)
}

// VerifCounters returns the persisted values of the leased and (bootstrapper only,
// else -1) free local-key counters.
func (s *Service) VerifCounters() (leased int64, free int64) {
	free = -1
	if s.freeCounter != nil {
		free = s.freeCounter.wrap.Value()
	}
	return s.leasedCounter.wrap.Value(), free
}

// VerifBump advances the leased (or, on the bootstrapper, free) local-key counter by delta,
// refusing to pass MaxUint20 as counter.add does (the reservation itself is exercised by the
// creates that follow a bump).
func (s *Service) VerifBump(ctx context.Context, free bool, delta int64) error {
	c := s.leasedCounter
	if free {
		if s.freeCounter == nil {
			return nil
		}
		c = s.freeCounter
	}
	if c.wrap.Value()+delta > int64(math.MaxUint20) {
		return errors.New("maximum number of channels created")
	}
	_, err := c.wrap.Add(ctx, delta)
	return err
}
