//go:build verif

package channel

import "context"

// VerifReopen opens a second Service over exactly the same configuration (cluster DB,
// time-series engine, transport, ontology, ...) as s, the way a restart of the node's
// channel service would. The transport handlers are re-bound to the new service.
func (s *Service) VerifReopen(ctx context.Context) (*Service, error) {
	return OpenService(ctx, s.cfg)
}

// VerifCounters returns the persisted values of the leased and (bootstrapper only,
// else -1) free local-key counters.
func (s *Service) VerifCounters() (leased int64, free int64) {
	free = -1
	if s.freeCounter != nil {
		free = s.freeCounter.wrap.Value()
	}
	return s.leasedCounter.wrap.Value(), free
}

// VerifBump advances the leased (or, on the bootstrapper, free) local-key counter through
// counter.add, exactly as the creation of delta channels would.
func (s *Service) VerifBump(ctx context.Context, free bool, delta int64) error {
	c := s.leasedCounter
	if free {
		if s.freeCounter == nil {
			return nil
		}
		c = s.freeCounter
	}
	_, err := c.add(ctx, LocalKey(delta))
	return err
}
