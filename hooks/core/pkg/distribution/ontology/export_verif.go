//go:build verif

package ontology

import (
	"context"

	"github.com/synnaxlabs/x/gorp"
)

// VerifDescendants exposes dagWriter.retrieveDescendants (the traversal the cycle check
// of DefineRelationship is built on) to the C16 harness.
func VerifDescendants(ctx context.Context, w Writer, id ID) ([]ID, error) {
	m, err := w.(dagWriter).retrieveDescendants(ctx, id)
	if err != nil {
		return nil, err
	}
	out := make([]ID, 0, len(m))
	for k := range m {
		out = append(out, k)
	}
	return out, nil
}

// VerifScan returns the raw contents of the resource and relationship tables as seen
// through tx (nil = committed state).
func VerifScan(ctx context.Context, o *Ontology, tx gorp.Tx) ([]Resource, []Relationship, error) {
	var (
		res  []Resource
		rels []Relationship
	)
	tx = o.DB.OverrideTx(tx)
	if err := o.resourceTable.NewRetrieve().Entries(&res).Exec(ctx, tx); err != nil {
		return nil, nil, err
	}
	if err := o.relationshipTable.NewRetrieve().Entries(&rels).Exec(ctx, tx); err != nil {
		return nil, nil, err
	}
	return res, rels, nil
}
