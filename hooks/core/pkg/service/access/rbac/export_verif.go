//go:build verif

package rbac

import (
	"github.com/synnaxlabs/synnax/pkg/service/access/rbac/policy"
	"github.com/synnaxlabs/synnax/pkg/service/access/rbac/role"
	"github.com/synnaxlabs/x/gorp"
)

// VerifService assembles a Service (and therefore an Enforcer) from already opened policy
// and role services without provisioning the built-in roles and policies, so that the C18
// harness starts from an empty configuration.
func VerifService(db *gorp.DB, p *policy.Service, r *role.Service) *Service {
	return &Service{Policy: p, Role: r, cfg: ServiceConfig{DB: db}}
}
