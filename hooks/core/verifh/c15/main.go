//go:build verif

// Command c15 drives the real channel.Service of every node of an in-memory 1-3 node
// cluster (core/pkg/distribution/mock: real aspen KV + gossip over the mock network,
// real cesium engines on memory file systems) through scripted batched create / rename /
// delete / service-restart histories, and prints after every operation: the operation's
// result, the metadata table as every node sees it, every node's time-series engine
// channel listing, and whether previously deleted keys can still be retrieved / written /
// read at either layer. Line protocol: one JSON case per stdin line, one JSON result per
// stdout line.
package main

import (
	"bufio"
	"context"
	"encoding/json"
	"fmt"
	"os"
	"reflect"
	"path"
	"sort"
	"strings"
	"sync/atomic"
	"time"

	"github.com/onsi/gomega"
	"github.com/synnaxlabs/cesium"
	"github.com/synnaxlabs/synnax/pkg/distribution"
	"github.com/synnaxlabs/synnax/pkg/distribution/channel"
	"github.com/synnaxlabs/synnax/pkg/distribution/framer"
	"github.com/synnaxlabs/synnax/pkg/distribution/mock"
	"github.com/synnaxlabs/synnax/pkg/distribution/node"
	storagemock "github.com/synnaxlabs/synnax/pkg/storage/mock"
	"github.com/synnaxlabs/synnax/pkg/storage/ts"
	"github.com/synnaxlabs/x/gorp"
	xfs "github.com/synnaxlabs/x/io/fs"
	"github.com/synnaxlabs/x/telem"
)

// ---- case format

type chanSpec struct {
	Name    string `json:"name"`
	Lease   uint32 `json:"lease"` // 0 = default (gateway), 4095 = free
	DT      string `json:"dt"`
	IsIndex bool   `json:"is_index"`
	// index: local index given literally (Idx) or through a reference to a previously
	// returned channel (IdxRef >= 0: its local key is used).
	Idx     uint32 `json:"idx"`
	IdxName string `json:"idx_name"` // non-empty: local key of the live channel of that name
	// KeyName non-empty: the request entry carries the local key of the live channel of that
	// name (re-submission of an existing channel WITH its key, as clients do for updates)
	KeyName string `json:"key_name"`
	Virtual bool   `json:"virtual"`
	Expr    string `json:"expr"`
}

type op struct {
	Op       string     `json:"op"` // create | rename | delete | delete_by_name | restart
	Gw       uint32     `json:"gw"`
	Chans    []chanSpec `json:"chans"`
	Retrieve bool       `json:"retrieve"`
	Over     bool       `json:"over"`
	// keys of rename/delete: per position either the live channel of that name (By[i] != ""),
	// the Dead[i]-th previously deleted key (Dead[i] >= 0), or the literal Keys[i]
	By    []string `json:"by"`
	Dead  []int    `json:"dead"`
	Keys  []uint32 `json:"keys"`
	Names []string `json:"names"`
	ChansB []chanSpec `json:"chans_b"` // create_pair: the second request
	Fault  uint32     `json:"fault"`   // fcreate / frename: the node whose next meta.json persist fails
	Free  bool     `json:"free"`  // bump: free counter
	Delta int64    `json:"delta"` // bump
}

// engine-level case: ONE cesium engine on a memory file system that is closed and reopened on the
// same file system (the mock cluster cannot reopen a node's engine)
type eop struct {
	Op    string    `json:"op"` // create | delete | delete1 | rename | reopen
	Chans []engChan `json:"chans"`
	Keys  []uint32  `json:"keys"`
	Names []string  `json:"names"`
}
type estep struct {
	Err     string    `json:"err"`
	ErrText string    `json:"err_text"`
	Eng     []engChan `json:"eng"`
}

type tcase struct {
	Kind     string `json:"kind"` // "" (cluster) | "engine"
	EOps     []eop  `json:"eops"`
	ID       int    `json:"id"`
	Nodes    int    `json:"nodes"`
	Validate bool   `json:"validate"`
	Ops      []op   `json:"ops"`
	Reset    bool   `json:"reset"` // force a fresh cluster for this case
	Tag      string `json:"tag"`
}

// ---- result format

type chanOut struct {
	Key      uint32 `json:"key"`
	Name     string `json:"name"`
	Lease    uint32 `json:"lease"`
	DT       string `json:"dt"`
	IsIndex  bool   `json:"is_index"`
	LocalKey uint32 `json:"local_key"`
	LocalIdx uint32 `json:"local_idx"`
	Virtual  bool   `json:"virtual"`
	Internal bool   `json:"internal"`
	Expr     string `json:"expr"`
}

type engChan struct {
	Key     uint32 `json:"key"`
	Name    string `json:"name"`
	DT      string `json:"dt"`
	IsIndex bool   `json:"is_index"`
	Index   uint32 `json:"index"`
	Virtual bool   `json:"virtual"`
	Kind    string `json:"kind"` // unary | virtual : the engine map the channel lives in
}

type goneOut struct {
	Key       uint32 `json:"key"`
	MetaFound []uint32 `json:"meta_found"` // nodes whose Retrieve still returns the key
	EngFound  []uint32 `json:"eng_found"`  // nodes whose engine still returns the key
	DistW     []uint32 `json:"dist_w"`     // nodes on which Framer.OpenWriter succeeded
	DistI     []uint32 `json:"dist_i"`     // nodes on which Framer.OpenIterator succeeded
	EngW      []uint32 `json:"eng_w"`      // nodes whose engine opened a writer
	EngI      []uint32 `json:"eng_i"`      // nodes whose engine opened an iterator
}

type stepOut struct {
	Err      string               `json:"err"`   // "" | class
	ErrText  string               `json:"err_text"`
	Keys     []uint32             `json:"keys"`  // resolved keys the op was issued with
	Idx      []uint32             `json:"idx"`   // create: resolved local index per channel
	LKeys    []uint32             `json:"lkeys"` // create: resolved local key per channel (0 = none)
	Ret      []chanOut            `json:"ret"`   // create: the channels handed back
	Meta     []chanOut            `json:"meta"`  // metadata (sorted by key) once all nodes agree
	Agree    bool                 `json:"agree"` // all nodes returned the same metadata
	MetaPer  map[string][]chanOut `json:"meta_per,omitempty"`
	Eng      map[string][]engChan `json:"eng"`   // node -> engine listing (sorted by key)
	Gone     []goneOut            `json:"gone"`
	Counters map[string][2]int64  `json:"counters"`
	Fired    bool                 `json:"fired"` // fcreate / frename: the armed fault was consumed
}

type result struct {
	ID    int       `json:"id"`
	Base  stepOut   `json:"base"` // state before the first op
	Steps []stepOut `json:"steps"`
	Panic *string   `json:"panic"`
	Unsettled bool  `json:"unsettled"`
	ESteps []estep  `json:"esteps"`
}

// ---- cluster handling

type clusterT struct {
	c        *mock.Cluster
	n        int
	validate bool
	svc      map[uint32]*channel.Service
	returned []channel.Channel // every channel ever handed back by a create on this cluster
	deleted  []uint32          // keys that were in metadata once and were removed by a successful delete
	faults   map[uint32]*atomic.Int32
	stores   *storagemock.Cluster
	engines  []*ts.DB
	tsOf     map[uint32]*ts.DB
	names    int
}

var ctx = context.Background()

// faultFS is the file system of one node's time-series engine. While armed, the next attempt to
// move a freshly written meta.json.tmp over meta.json (the step that persists a channel's meta
// file on create and rename) fails, once.
type faultFS struct {
	xfs.FS
	armed *atomic.Int32
}

var errInjected = fmt.Errorf("injected storage fault: cannot persist meta.json")

func (f *faultFS) Sub(name string) (xfs.FS, error) {
	sub, err := f.FS.Sub(name)
	if err != nil {
		return nil, err
	}
	return &faultFS{FS: sub, armed: f.armed}, nil
}

func (f *faultFS) Rename(oldPath, newPath string) error {
	if path.Base(newPath) == "meta.json" && f.armed.CompareAndSwap(1, 0) {
		return errInjected
	}
	return f.FS.Rename(oldPath, newPath)
}

func provision(n int, validate bool) *clusterT {
	v := validate
	c := mock.NewCluster(distribution.LayerConfig{ValidateChannelNames: &v})
	cl := &clusterT{c: c, n: n, validate: validate, svc: map[uint32]*channel.Service{},
		faults: map[uint32]*atomic.Int32{}, tsOf: map[uint32]*ts.DB{}, stores: storagemock.NewCluster()}
	for i := 0; i < n; i++ {
		layer := cl.stores.Provision(ctx)
		armed := &atomic.Int32{}
		tsdb, err := ts.Open(ctx, ts.Config{FS: &faultFS{FS: xfs.NewMem(), armed: armed}, Dirname: "cesium"})
		if err != nil {
			panic(err)
		}
		layer.TS = tsdb
		cl.engines = append(cl.engines, tsdb)
		nd := c.Provision(ctx, distribution.LayerConfig{Storage: layer})
		cl.faults[uint32(nd.Cluster.HostKey())] = armed
		cl.tsOf[uint32(nd.Cluster.HostKey())] = tsdb
	}
	for k, nd := range c.Nodes {
		cl.svc[uint32(k)] = nd.Channel
	}
	return cl
}

func (cl *clusterT) close() {
	_ = cl.c.Close()
	for _, e := range cl.engines {
		_ = e.Close()
	}
	_ = cl.stores.Close()
}

func toOut(c channel.Channel) chanOut {
	return chanOut{
		Key: uint32(c.Key()), Name: c.Name, Lease: uint32(c.Leaseholder), DT: string(c.DataType),
		IsIndex: c.IsIndex, LocalKey: uint32(c.LocalKey), LocalIdx: uint32(c.LocalIndex),
		Virtual: c.Virtual, Internal: c.Internal, Expr: c.Expression,
	}
}

func (cl *clusterT) nodeKeys() []uint32 {
	ks := make([]uint32, 0, cl.n)
	for k := range cl.svc {
		ks = append(ks, k)
	}
	sort.Slice(ks, func(a, b int) bool { return ks[a] < ks[b] })
	return ks
}

func (cl *clusterT) metaOf(nk uint32) ([]chanOut, error) {
	var chs []channel.Channel
	if err := cl.svc[nk].NewRetrieve().Entries(&chs).Exec(ctx, nil); err != nil {
		return nil, err
	}
	out := make([]chanOut, 0, len(chs))
	for _, c := range chs {
		out = append(out, toOut(c))
	}
	sort.Slice(out, func(a, b int) bool { return out[a].Key < out[b].Key })
	return out, nil
}

func (cl *clusterT) engOf(nk uint32) []engChan {
	db := cl.tsOf[nk]
	u, v := db.VerifChannelKeys()
	out := []engChan{}
	add := func(keys []cesium.ChannelKey, kind string) {
		for _, k := range keys {
			ch, err := db.RetrieveChannel(ctx, k)
			if err != nil {
				out = append(out, engChan{Key: uint32(k), Kind: kind + "!" + err.Error()})
				continue
			}
			out = append(out, engChan{Key: uint32(ch.Key), Name: ch.Name, DT: string(ch.DataType),
				IsIndex: ch.IsIndex, Index: uint32(ch.Index), Virtual: ch.Virtual, Kind: kind})
		}
	}
	add(u, "unary")
	add(v, "virtual")
	sort.Slice(out, func(a, b int) bool { return out[a].Key < out[b].Key })
	return out
}

// observe waits (bounded) until every node reports the same metadata, then snapshots.
func (cl *clusterT) observe(st *stepOut) {
	nks := cl.nodeKeys()
	deadline := time.Now().Add(3 * time.Second)
	var per map[uint32][]chanOut
	stable := 0
	for {
		per = map[uint32][]chanOut{}
		agree := true
		for _, nk := range nks {
			m, err := cl.metaOf(nk)
			if err != nil {
				m = []chanOut{{Name: "!retrieve error: " + err.Error()}}
			}
			per[nk] = m
			if !reflect.DeepEqual(m, per[nks[0]]) {
				agree = false
			}
		}
		if agree {
			stable++
		} else {
			stable = 0
		}
		// demand agreement on two consecutive polls spaced by more than a gossip round
		if stable >= 2 || time.Now().After(deadline) {
			st.Agree = agree
			break
		}
		time.Sleep(15 * time.Millisecond)
	}
	st.Meta = per[nks[0]]
	if !st.Agree {
		st.MetaPer = map[string][]chanOut{}
		for k, v := range per {
			st.MetaPer[fmt.Sprint(k)] = v
		}
	}
	st.Eng = map[string][]engChan{}
	st.Counters = map[string][2]int64{}
	for _, nk := range nks {
		st.Eng[fmt.Sprint(nk)] = cl.engOf(nk)
		l, f := cl.svc[nk].VerifCounters()
		st.Counters[fmt.Sprint(nk)] = [2]int64{l, f}
	}
	st.Gone = []goneOut{}
	for _, k := range cl.deleted {
		st.Gone = append(st.Gone, cl.probeGone(k))
	}
}

func (cl *clusterT) probeGone(k uint32) goneOut {
	g := goneOut{Key: k, MetaFound: []uint32{}, EngFound: []uint32{}, DistW: []uint32{}, DistI: []uint32{},
		EngW: []uint32{}, EngI: []uint32{}}
	for _, nk := range cl.nodeKeys() {
		nd := cl.c.Nodes[node.Key(nk)]
		var chs []channel.Channel
		err := cl.svc[nk].NewRetrieve().Where(channel.MatchKeys(channel.Key(k))).Entries(&chs).Exec(ctx, nil)
		if err == nil && len(chs) > 0 {
			g.MetaFound = append(g.MetaFound, nk)
		}
		if _, err := cl.tsOf[uint32(nk)].RetrieveChannel(ctx, cesium.ChannelKey(k)); err == nil {
			g.EngFound = append(g.EngFound, nk)
		}
		if w, err := nd.Framer.OpenWriter(ctx, framer.WriterConfig{Keys: channel.Keys{channel.Key(k)}, Start: 10 * telem.SecondTS}); err == nil {
			g.DistW = append(g.DistW, nk)
			_ = w.Close()
		}
		if it, err := nd.Framer.OpenIterator(ctx, framer.IteratorConfig{Keys: channel.Keys{channel.Key(k)}, Bounds: telem.TimeRangeMax}); err == nil {
			g.DistI = append(g.DistI, nk)
			_ = it.Close()
		}
		if w, err := cl.tsOf[uint32(nk)].OpenWriter(ctx, cesium.WriterConfig{Channels: []cesium.ChannelKey{k}, Start: 10 * telem.SecondTS}); err == nil {
			g.EngW = append(g.EngW, nk)
			_ = w.Close()
		}
		if it, err := cl.tsOf[uint32(nk)].OpenIterator(cesium.IteratorConfig{Channels: []cesium.ChannelKey{k}, Bounds: telem.TimeRangeMax}); err == nil {
			g.EngI = append(g.EngI, nk)
			_ = it.Close()
		}
	}
	return g
}

func classify(err error) string {
	if err == nil {
		return ""
	}
	s := err.Error()
	switch {
	case strings.Contains(s, "injected storage fault"):
		return "fault"
	case strings.Contains(s, "node not found"):
		return "no_node"
	case strings.Contains(s, "cannot create channel") && strings.Contains(s, "already exists"):
		return "ts_exists"
	case strings.Contains(s, "index channel with key") && strings.Contains(s, "does not exist"):
		return "index_not_found"
	case strings.Contains(s, "is not an index"):
		return "not_an_index"
	case strings.Contains(s, "duplicate channel name"):
		return "dup_in_request"
	case strings.Contains(s, "already exists") && strings.Contains(s, "channel with name"):
		return "name_exists"
	case strings.Contains(s, "invalid channel name"), strings.Contains(s, "name cannot be empty"):
		return "invalid_name"
	case strings.Contains(s, "because it indexes data"):
		return "index_has_dependants"
	case strings.Contains(s, "maximum number of channels"):
		return "counter_overflow"
	case strings.Contains(s, "keys and names must"):
		return "len_mismatch"
	case strings.Contains(s, "can't delete internal"), strings.Contains(s, "cannot rename internal"):
		return "internal"
	case strings.Contains(s, "calculated channels cannot specify"):
		return "calc_index"
	case strings.Contains(s, "name: required"):
		return "name_required"
	case strings.HasPrefix(s, "data_type:"), strings.HasPrefix(s, "index:"), strings.HasPrefix(s, "key:"):
		return "ts_invalid"
	case strings.Contains(s, "not found"):
		return "not_found"
	case strings.Contains(s, "no such file") || strings.Contains(s, "file does not exist") || strings.Contains(s, "not exist"):
		return "fs_rename"
	default:
		return "other"
	}
}

// byName returns the lowest-keyed live channel of that name as node 1 sees it.
func (cl *clusterT) byName(name string) (chanOut, bool) {
	ms, err := cl.metaOf(cl.nodeKeys()[0])
	if err != nil {
		return chanOut{}, false
	}
	for _, c := range ms {
		if c.Name == name {
			return c, true
		}
	}
	return chanOut{}, false
}

func (cl *clusterT) liveExternal() []chanOut {
	ms, err := cl.metaOf(cl.nodeKeys()[0])
	if err != nil {
		return nil
	}
	out := []chanOut{}
	for _, c := range ms {
		if !c.Internal {
			out = append(out, c)
		}
	}
	return out
}

func (cl *clusterT) resolve(o op) []uint32 {
	out := make([]uint32, 0, len(o.Keys))
	for i, k := range o.Keys {
		if i < len(o.By) && o.By[i] != "" {
			if c, ok := cl.byName(o.By[i]); ok {
				k = c.Key
			} else if live := cl.liveExternal(); len(live) > 0 {
				// the generator aimed at a channel that does not exist (its create failed):
				// take some live non-system channel instead, chosen by the name
				h := 0
				for _, b := range []byte(o.By[i]) {
					h = h*31 + int(b)
				}
				// ... one that this request does not name already, if there is one
				for j := 0; j < len(live); j++ {
					cand := live[(h+j)%len(live)].Key
					dup := false
					for _, prev := range out {
						if prev == cand {
							dup = true
						}
					}
					k = cand
					if !dup {
						break
					}
				}
			}
		} else if i < len(o.Dead) && o.Dead[i] >= 0 && len(cl.deleted) > 0 {
			k = cl.deleted[o.Dead[i]%len(cl.deleted)]
		}
		out = append(out, k)
	}
	return out
}

func (cl *clusterT) metaKeys() map[uint32]bool {
	m := map[uint32]bool{}
	if ms, err := cl.metaOf(cl.nodeKeys()[0]); err == nil {
		for _, c := range ms {
			m[c.Key] = true
		}
	}
	return m
}

// specs resolves the channel specifications of a create request against the live metadata.
func (cl *clusterT) specs(specs []chanSpec, st *stepOut) []channel.Channel {
	chs := make([]channel.Channel, 0, len(specs))
	for _, s := range specs {
		idx := s.Idx
		if s.IdxName != "" {
			if c, ok := cl.byName(s.IdxName); ok {
				idx = c.LocalKey
			}
		}
		st.Idx = append(st.Idx, idx)
		lkey := uint32(0)
		if s.KeyName != "" {
			// only the key of a live CALCULATED channel is re-submitted (a request carrying
			// some other channel's key is outside what clients do and what the model assumes)
			if c, ok := cl.byName(s.KeyName); ok && c.Expr != "" {
				lkey = c.LocalKey
			}
		}
		st.LKeys = append(st.LKeys, lkey)
		chs = append(chs, channel.Channel{
			Name: s.Name, Leaseholder: node.Key(s.Lease), DataType: telem.DataType(s.DT), IsIndex: s.IsIndex,
			LocalIndex: channel.LocalKey(idx), Virtual: s.Virtual, Expression: s.Expr,
			LocalKey: channel.LocalKey(lkey),
		})
	}
	return chs
}

// arm makes the next meta.json persist of node n's engine fail; the returned function disarms
// it and reports whether the fault was consumed.
func (cl *clusterT) arm(n uint32) func() bool {
	a := cl.faults[n]
	if a == nil {
		return func() bool { return false }
	}
	a.Store(1)
	return func() bool { return !a.CompareAndSwap(1, 0) }
}

func (cl *clusterT) gwDB(gw uint32) *gorp.DB {
	if nd, ok := cl.c.Nodes[node.Key(gw)]; ok {
		return nd.DB
	}
	return cl.c.Nodes[node.Key(cl.nodeKeys()[0])].DB
}

// inTx runs f in a transaction on the gateway's cluster DB the way the API layer does: committed
// when f succeeds, discarded when it fails. (Called on the Service directly, i.e. without a
// transaction, the metadata write of a rename reaches the DB before the engine is asked.)
func (cl *clusterT) inTx(gw uint32, f func(tx gorp.Tx) error) error {
	tx := cl.gwDB(gw).OpenTx()
	defer func() { _ = tx.Close() }()
	if err := f(tx); err != nil {
		return err
	}
	return tx.Commit(ctx)
}

func (cl *clusterT) run(o op) (st stepOut) {
	svc := cl.svc[o.Gw]
	if svc == nil {
		svc = cl.svc[cl.nodeKeys()[0]]
	}
	var err error
	switch o.Op {
	case "create":
		chs := cl.specs(o.Chans, &st)
		var opts []channel.CreateOption
		if o.Retrieve {
			opts = append(opts, channel.RetrieveIfNameExists())
		}
		if o.Over {
			opts = append(opts, channel.OverwriteIfNameExistsAndDifferentProperties())
		}
		before := cl.metaKeys()
		err = svc.CreateMany(ctx, &chs, opts...)
		if err == nil {
			st.Ret = []chanOut{}
			for _, c := range chs {
				st.Ret = append(st.Ret, toOut(c))
				cl.returned = append(cl.returned, c)
			}
		}
		defer func() {
			// channels replaced by the overwrite option count as deleted
			after := map[uint32]bool{}
			for _, c := range st.Meta {
				after[c.Key] = true
			}
			if err != nil {
				return
			}
			for k := range before {
				if !after[k] {
					cl.noteDeleted(k)
				}
			}
		}()
	case "create_pair":
		// two create requests in overlapping transactions on the gateway's DB, committed in
		// reverse order
		a, b := cl.specs(o.Chans, &st), cl.specs(o.ChansB, &st)
		db := cl.gwDB(o.Gw)
		txA, txB := db.OpenTx(), db.OpenTx()
		err = svc.NewWriter(txA).CreateMany(ctx, &a)
		if err == nil {
			err = svc.NewWriter(txB).CreateMany(ctx, &b)
		}
		if err == nil {
			err = txB.Commit(ctx)
		}
		if err == nil {
			err = txA.Commit(ctx)
		}
		_ = txA.Close()
		_ = txB.Close()
		if err == nil {
			st.Ret = []chanOut{}
			for _, c := range append(a, b...) {
				st.Ret = append(st.Ret, toOut(c))
				cl.returned = append(cl.returned, c)
			}
		}
	case "fcreate":
		chs := cl.specs(o.Chans, &st)
		disarm := cl.arm(o.Fault)
		err = cl.inTx(o.Gw, func(tx gorp.Tx) error { return svc.NewWriter(tx).CreateMany(ctx, &chs) })
		st.Fired = disarm()
		if err == nil {
			st.Ret = []chanOut{}
			for _, c := range chs {
				st.Ret = append(st.Ret, toOut(c))
				cl.returned = append(cl.returned, c)
			}
		}
	case "frename":
		st.Keys = cl.resolve(o)
		disarm := cl.arm(o.Fault)
		err = cl.inTx(o.Gw, func(tx gorp.Tx) error {
			return svc.NewWriter(tx).RenameMany(ctx, channel.KeysFromUint32(st.Keys), o.Names, false)
		})
		st.Fired = disarm()
	case "rename":
		st.Keys = cl.resolve(o)
		err = svc.RenameMany(ctx, channel.KeysFromUint32(st.Keys), o.Names, false)
	case "delete":
		st.Keys = cl.resolve(o)
		before := cl.metaKeys()
		err = svc.DeleteMany(ctx, channel.KeysFromUint32(st.Keys), false)
		if err == nil {
			for _, k := range st.Keys {
				if before[k] {
					cl.noteDeleted(k)
				}
			}
		}
	case "delete_by_name":
		before := map[string]uint32{}
		if ms, e := cl.metaOf(cl.nodeKeys()[0]); e == nil {
			for _, c := range ms {
				before[c.Name] = c.Key
			}
		}
		err = svc.DeleteManyByNames(ctx, o.Names, false)
		if err == nil {
			for _, n := range o.Names {
				if k, ok := before[n]; ok {
					cl.noteDeleted(k)
				}
			}
		}
	case "bump":
		err = svc.VerifBump(ctx, o.Free, o.Delta)
	case "restart":
		var ns *channel.Service
		ns, err = svc.VerifReopen(ctx)
		if err == nil {
			gw := o.Gw
			if cl.svc[gw] == nil {
				gw = cl.nodeKeys()[0]
			}
			cl.svc[gw] = ns
		}
	}
	st.Err = classify(err)
	if err != nil {
		st.ErrText = err.Error()
	}
	cl.observe(&st)
	return st
}

func (cl *clusterT) noteDeleted(k uint32) {
	for _, d := range cl.deleted {
		if d == k {
			return
		}
	}
	cl.deleted = append(cl.deleted, k)
}

var cur *clusterT

func listEngine(db *cesium.DB) []engChan {
	u, v := db.VerifChannelKeys()
	out := []engChan{}
	add := func(keys []cesium.ChannelKey, kind string) {
		for _, k := range keys {
			ch, err := db.RetrieveChannel(ctx, k)
			if err != nil {
				out = append(out, engChan{Key: uint32(k), Kind: kind + "!" + err.Error()})
				continue
			}
			out = append(out, engChan{Key: uint32(ch.Key), Name: ch.Name, DT: string(ch.DataType),
				IsIndex: ch.IsIndex, Index: uint32(ch.Index), Virtual: ch.Virtual, Kind: kind})
		}
	}
	add(u, "unary")
	add(v, "virtual")
	sort.Slice(out, func(a, b int) bool { return out[a].Key < out[b].Key })
	return out
}

func runEngine(c tcase) (res result) {
	res.ID = c.ID
	fs := xfs.NewMem()
	db, err := cesium.Open(ctx, "", cesium.WithFS(fs))
	if err != nil {
		panic(err)
	}
	defer func() { _ = db.Close() }()
	res.ESteps = []estep{}
	for _, o := range c.EOps {
		var err error
		switch o.Op {
		case "create":
			chs := make([]cesium.Channel, 0, len(o.Chans))
			for _, e := range o.Chans {
				chs = append(chs, cesium.Channel{Key: e.Key, Name: e.Name, DataType: telem.DataType(e.DT),
					IsIndex: e.IsIndex, Index: e.Index, Virtual: e.Virtual})
			}
			err = db.CreateChannel(ctx, chs...)
		case "delete":
			err = db.DeleteChannels(o.Keys)
		case "delete1":
			err = db.DeleteChannel(o.Keys[0])
		case "rename":
			err = db.RenameChannels(ctx, o.Keys, o.Names)
		case "reopen":
			if err = db.Close(); err == nil {
				db, err = cesium.Open(ctx, "", cesium.WithFS(fs))
			}
			if err != nil {
				panic("reopen: " + err.Error())
			}
		}
		st := estep{Err: classify(err), Eng: listEngine(db)}
		if err != nil {
			st.ErrText = err.Error()
		}
		res.ESteps = append(res.ESteps, st)
	}
	return res
}

func runCase(c tcase) (res result) {
	res.ID = c.ID
	defer func() {
		if r := recover(); r != nil {
			s := fmt.Sprint(r)
			res.Panic = &s
			if cur != nil {
				cur.close()
				cur = nil
			}
		}
	}()
	if c.Kind == "engine" {
		return runEngine(c)
	}
	// every case gets a fresh cluster: histories must start from a known state
	if cur != nil {
		cur.close()
		cur = nil
	}
	cur = provision(c.Nodes, c.Validate)
	cur.observe(&res.Base)
	for _, o := range c.Ops {
		st := cur.run(o)
		res.Steps = append(res.Steps, st)
		if !st.Agree {
			// the aspen gossip did not deliver some update to every node: the history cannot be
			// observed any further (convergence of the KV replicas is property C06, not C15)
			res.Unsettled = true
			break
		}
	}
	cur.close()
	cur = nil
	return res
}

func main() {
	gomega.RegisterFailHandler(func(message string, _ ...int) { panic("gomega: " + message) })
	in := bufio.NewScanner(os.Stdin)
	in.Buffer(make([]byte, 1<<20), 1<<26)
	out := bufio.NewWriter(os.Stdout)
	defer out.Flush()
	for in.Scan() {
		var c tcase
		if err := json.Unmarshal(in.Bytes(), &c); err != nil {
			fmt.Fprintln(os.Stderr, "bad case:", err)
			os.Exit(2)
		}
		b, _ := json.Marshal(runCase(c))
		out.Write(b)
		out.WriteByte('\n')
		out.Flush()
	}
}
