//go:build verif

// Command c18 drives the real RBAC stack (policy.Service, role.Service and the rbac
// Enforcer over ontology + gorp.Wrap(memkv)) through scripted histories of role / policy /
// assignment changes inside committed and aborted transactions, interleaved with Enforce
// calls. After every operation it dumps the ontology tables, the policy and role tables
// (transaction view and committed view) and RetrievePoliciesForSubject of every subject of
// the case universe. Line protocol: one JSON case per stdin line, one JSON result per line.
package main

import (
	"bufio"
	"bytes"
	"context"
	"encoding/json"
	"fmt"
	"os"
	"slices"
	"sort"
	"sync/atomic"
	"time"

	"github.com/google/uuid"
	"github.com/synnaxlabs/synnax/pkg/distribution/group"
	"github.com/synnaxlabs/synnax/pkg/distribution/ontology"
	"github.com/synnaxlabs/synnax/pkg/distribution/search"
	"github.com/synnaxlabs/synnax/pkg/service/access"
	"github.com/synnaxlabs/synnax/pkg/service/access/rbac"
	"github.com/synnaxlabs/synnax/pkg/service/access/rbac/policy"
	"github.com/synnaxlabs/synnax/pkg/service/access/rbac/role"
	"github.com/synnaxlabs/x/errors"
	"github.com/synnaxlabs/x/gorp"
	"github.com/synnaxlabs/x/graph"
	"github.com/synnaxlabs/x/kv"
	"github.com/synnaxlabs/x/kv/memkv"
	"github.com/synnaxlabs/x/query"
	"github.com/synnaxlabs/x/validate"
)

type idj struct {
	T string `json:"t"`
	K string `json:"k"`
}

func (i idj) id() ontology.ID { return ontology.ID{Type: ontology.ResourceType(i.T), Key: i.K} }

type op struct {
	Op       string   `json:"op"`
	K        int      `json:"k"`
	Ks       []int    `json:"ks"`
	R        int      `json:"r"`
	S        idj      `json:"s"`
	Objs     []idj    `json:"objs"`
	Acts     []string `json:"acts"`
	Act      string   `json:"act"`
	Internal bool     `json:"internal"`
	Allow    bool     `json:"allow"`
	Commit   bool     `json:"committed"`
	// ObjsEmpty / ActsEmpty: when the policy lists no objects / actions, store a non-nil empty
	// slice instead of an absent (nil) one
	ObjsEmpty bool `json:"objs_empty"`
	ActsEmpty bool `json:"acts_empty"`
	// Reuse: pass the very slice of the previous Enforce call again (callers check one
	// object list for several subjects / before and after a change) when it was built
	// for the same list of objects
	Reuse bool `json:"reuse"`
}

type tcase struct {
	ID       int   `json:"id"`
	Ops      []op  `json:"ops"`
	Subjects []idj `json:"subjects"`
	// Scan selects the flavour whose relationship indexes failed to populate at open
	Scan bool `json:"scan"`
}

type polj struct {
	K        string      `json:"k"`
	Objs     [][2]string `json:"objs"`
	Acts     []string    `json:"acts"`
	Internal bool        `json:"internal"`
}

type rolej struct {
	K        string `json:"k"`
	Internal bool   `json:"internal"`
}

type view struct {
	Res   [][2]string `json:"res"`
	Rels  [][5]string `json:"rels"`
	Pols  []polj      `json:"pols"`
	Roles []rolej     `json:"roles"`
}

type rps struct {
	E string   `json:"e"`
	K []string `json:"k"`
}

type step struct {
	Err string `json:"err"`
	// Mutated: Enforce changed the caller's Objects slice; MutatedTo is what it reads now
	Mutated   bool        `json:"mutated"`
	MutatedTo [][2]string `json:"mutated_to"`
	V         view        `json:"v"`
	CV        view        `json:"cv"`
	RP        []rps       `json:"rp"`
}

type result struct {
	ID    int     `json:"id"`
	Init  view    `json:"init"`
	Steps []step  `json:"steps"`
	Panic *string `json:"panic"`
}

const groupAlias = "users-group"

// faultyDB fails the first iterator opened directly against the DB (not through a
// transaction) over the ontology Relationship table. That iterator is the one the table
// uses to populate its secondary indexes at open, so the by-To index stays invalid and the
// ParentsTraverser runs on its raw sequential-scan fallback for the whole case.
type faultyDB struct {
	kv.DB
	failed atomic.Bool
}

func (f *faultyDB) OpenIterator(opts kv.IteratorOptions) (kv.Iterator, error) {
	if bytes.Contains(opts.LowerBound, []byte("Relationship")) && f.failed.CompareAndSwap(false, true) {
		return nil, errors.New("injected I/O error while opening iterator")
	}
	return f.DB.OpenIterator(opts)
}

// openDB returns the gorp DB of a case and, for the scan-fallback flavour, a function that
// waits until the injected fault has been consumed by the background index population.
func openDB(scan bool) (*gorp.DB, func()) {
	if !scan {
		return gorp.Wrap(memkv.New()), func() {}
	}
	f := &faultyDB{DB: memkv.New()}
	return gorp.Wrap(f), func() {
		deadline := time.Now().Add(10 * time.Second)
		for !f.failed.Load() {
			if time.Now().After(deadline) {
				panic("relationship index population never opened an iterator")
			}
			time.Sleep(200 * time.Microsecond)
		}
	}
}

func class(err error) string {
	switch {
	case err == nil:
		return "ok"
	case errors.Is(err, access.ErrDenied):
		return "denied"
	case errors.Is(err, graph.ErrCyclicDependency):
		return "cyclic"
	case errors.Is(err, query.ErrNotFound):
		return "notfound"
	case errors.Is(err, validate.ErrValidation):
		return "validation"
	default:
		return "other:" + err.Error()
	}
}

// key n of the case alphabet as a UUID
func ukey(n int) uuid.UUID {
	var u uuid.UUID
	u[15] = byte(n)
	u[14] = byte(n >> 8)
	return u
}

type env struct {
	ctx      context.Context
	db       *gorp.DB
	otg      *ontology.Ontology
	svc      *rbac.Service
	groupKey string
	aliases  map[string]string
}

// alias renames the random key of the Users group and the 36-byte UUID strings of the case
// alphabet (ukey(n)) to short names ("k<n>") in everything the harness reports. The renaming
// is injective, length-uniform per alphabet and introduces no ':' or "->", so it preserves
// every prefix / suffix relation between relationship keys; it keeps the Coq terms (and the
// depth of the model's key tries) small.
func (e *env) alias(k string) string {
	if k == e.groupKey {
		return groupAlias
	}
	if a, ok := e.aliases[k]; ok {
		return a
	}
	return k
}

// target of a gadd / gremove op: a subject (S) or, when K > 0, the policy with key K
func (e *env) target(o op) ontology.ID {
	if o.K > 0 {
		return policy.OntologyID(ukey(o.K))
	}
	return o.S.id()
}

func (e *env) dump(tx gorp.Tx) view {
	var v view
	res, rels, err := ontology.VerifScan(e.ctx, e.otg, tx)
	if err != nil {
		panic(err)
	}
	for _, r := range res {
		v.Res = append(v.Res, [2]string{string(r.ID.Type), e.alias(r.ID.Key)})
	}
	sort.Slice(v.Res, func(a, b int) bool {
		if v.Res[a][0] != v.Res[b][0] {
			return v.Res[a][0] < v.Res[b][0]
		}
		return v.Res[a][1] < v.Res[b][1]
	})
	for _, r := range rels {
		v.Rels = append(v.Rels, [5]string{string(r.From.Type), e.alias(r.From.Key), string(r.Type), string(r.To.Type), e.alias(r.To.Key)})
	}
	sort.Slice(v.Rels, func(a, b int) bool { return fmt.Sprint(v.Rels[a]) < fmt.Sprint(v.Rels[b]) })
	var ps []policy.Policy
	if err := e.svc.Policy.NewRetrieve().Entries(&ps).Exec(e.ctx, tx); err != nil {
		panic(err)
	}
	for _, p := range ps {
		pj := polj{K: e.alias(p.Key.String()), Internal: p.Internal, Objs: [][2]string{}, Acts: []string{}}
		for _, o := range p.Objects {
			pj.Objs = append(pj.Objs, [2]string{string(o.Type), o.Key})
		}
		for _, a := range p.Actions {
			pj.Acts = append(pj.Acts, string(a))
		}
		v.Pols = append(v.Pols, pj)
	}
	sort.Slice(v.Pols, func(a, b int) bool { return v.Pols[a].K < v.Pols[b].K })
	var rs []role.Role
	if err := e.svc.Role.NewRetrieve().Entries(&rs).Exec(e.ctx, tx); err != nil {
		panic(err)
	}
	for _, r := range rs {
		v.Roles = append(v.Roles, rolej{K: e.alias(r.Key.String()), Internal: r.Internal})
	}
	sort.Slice(v.Roles, func(a, b int) bool { return v.Roles[a].K < v.Roles[b].K })
	return v
}

func runCase(c tcase) (res result) {
	res.ID = c.ID
	defer func() {
		if r := recover(); r != nil {
			s := fmt.Sprint(r)
			res.Panic = &s
		}
	}()
	ctx := context.Background()
	db, waitFault := openDB(c.Scan)
	defer func() { _ = db.Close() }()
	must := func(err error) {
		if err != nil {
			panic(err)
		}
	}
	otg, err := ontology.Open(ctx, ontology.Config{DB: db})
	must(err)
	defer func() { _ = otg.Close() }()
	waitFault()
	idx, err := search.Open()
	must(err)
	defer func() { _ = idx.Close() }()
	grp, err := group.OpenService(ctx, group.ServiceConfig{DB: db, Ontology: otg, Search: idx})
	must(err)
	defer func() { _ = grp.Close() }()
	pol, err := policy.OpenService(ctx, policy.ServiceConfig{DB: db, Ontology: otg, Search: idx})
	must(err)
	defer func() { _ = pol.Close() }()
	rol, err := role.OpenService(ctx, role.ServiceConfig{DB: db, Ontology: otg, Group: grp, Search: idx})
	must(err)
	defer func() { _ = rol.Close() }()
	e := &env{ctx: ctx, db: db, otg: otg, svc: rbac.VerifService(db, pol, rol), groupKey: rol.UsersGroup().OntologyID().Key, aliases: map[string]string{}}
	for n := 0; n < 64; n++ {
		e.aliases[ukey(n).String()] = fmt.Sprint("k", n)
	}
	res.Init = e.dump(nil)
	var tx gorp.Tx
	defer func() {
		if tx != nil {
			_ = tx.Close()
		}
	}()
	var lastObjs, lastWant []ontology.ID
	for _, o := range c.Ops {
		var er error
		mutated := false
		var mutatedTo [][2]string
		switch o.Op {
		case "role":
			er = rol.NewWriter(tx, o.Allow).Create(ctx, &role.Role{Key: ukey(o.K), Name: fmt.Sprint("r", o.K), Internal: o.Internal})
		case "delrole":
			er = rol.NewWriter(tx, o.Allow).Delete(ctx, ukey(o.K))
		case "policy":
			p := &policy.Policy{Key: ukey(o.K), Name: fmt.Sprint("p", o.K), Internal: o.Internal}
			for _, ob := range o.Objs {
				p.Objects = append(p.Objects, ob.id())
			}
			for _, a := range o.Acts {
				p.Actions = append(p.Actions, access.Action(a))
			}
			if len(o.Objs) == 0 && o.ObjsEmpty {
				p.Objects = []ontology.ID{}
			}
			if len(o.Acts) == 0 && o.ActsEmpty {
				p.Actions = []access.Action{}
			}
			er = pol.NewWriter(tx, o.Allow).Create(ctx, p)
		case "delpolicy":
			ks := make([]policy.Key, 0, len(o.Ks))
			for _, k := range o.Ks {
				ks = append(ks, ukey(k))
			}
			er = pol.NewWriter(tx, true).Delete(ctx, ks...)
		case "seton":
			ks := make([]policy.Key, 0, len(o.Ks))
			for _, k := range o.Ks {
				ks = append(ks, ukey(k))
			}
			er = pol.NewWriter(tx, true).SetOnRole(ctx, ukey(o.R), ks...)
		case "assign":
			er = rol.NewWriter(tx, true).AssignRole(ctx, o.S.id(), ukey(o.R))
		case "unassign":
			er = rol.NewWriter(tx, true).UnassignRole(ctx, o.S.id(), ukey(o.R))
		case "subject":
			er = otg.NewWriter(tx).DefineResource(ctx, o.S.id())
		case "delsubject":
			er = otg.NewWriter(tx).DeleteResource(ctx, o.S.id())
		case "gadd":
			er = otg.NewWriter(tx).DefineRelationship(ctx, rol.UsersGroup().OntologyID(), ontology.RelationshipTypeParentOf, e.target(o))
		case "gremove":
			er = otg.NewWriter(tx).DeleteRelationship(ctx, rol.UsersGroup().OntologyID(), ontology.RelationshipTypeParentOf, e.target(o))
		case "begin":
			if tx == nil {
				tx = db.OpenTx()
			}
		case "commit":
			if tx != nil {
				er = tx.Commit(ctx)
				if ce := tx.Close(); er == nil {
					er = ce
				}
				tx = nil
			}
		case "abort":
			if tx != nil {
				er = tx.Close()
				tx = nil
			}
		case "enforce":
			req := access.Request{Subject: o.S.id(), Action: access.Action(o.Act)}
			want := make([]ontology.ID, 0, len(o.Objs))
			for _, ob := range o.Objs {
				want = append(want, ob.id())
			}
			if o.Reuse && lastObjs != nil && slices.Equal(lastWant, want) {
				req.Objects = lastObjs
			} else {
				req.Objects = slices.Clone(want)
			}
			lastObjs, lastWant = req.Objects, want
			if o.Commit || tx == nil {
				er = e.svc.Enforce(ctx, req)
			} else {
				er = e.svc.NewEnforcer(tx).Enforce(ctx, req)
			}
			if !slices.Equal(req.Objects, want) {
				mutated = true
				for _, x := range req.Objects {
					mutatedTo = append(mutatedTo, [2]string{string(x.Type), x.Key})
				}
			}
		default:
			panic("unknown op " + o.Op)
		}
		st := step{Err: class(er), V: e.dump(tx), CV: e.dump(nil), Mutated: mutated, MutatedTo: mutatedTo}
		for _, s := range c.Subjects {
			ps, err := e.svc.RetrievePoliciesForSubject(ctx, s.id(), tx)
			r := rps{E: class(err), K: []string{}}
			if err == nil {
				for _, p := range ps {
					r.K = append(r.K, e.alias(p.Key.String()))
				}
				sort.Strings(r.K)
			}
			st.RP = append(st.RP, r)
		}
		res.Steps = append(res.Steps, st)
	}
	return res
}

func main() {
	in := bufio.NewScanner(os.Stdin)
	in.Buffer(make([]byte, 1<<20), 1<<26)
	out := bufio.NewWriter(os.Stdout)
	defer out.Flush()
	for in.Scan() {
		var c tcase
		if err := json.Unmarshal(in.Bytes(), &c); err != nil {
			fmt.Fprintln(os.Stderr, "bad case:", err)
			os.Exit(2)
		}
		b, _ := json.Marshal(runCase(c))
		out.Write(b)
		out.WriteByte('\n')
	}
}
