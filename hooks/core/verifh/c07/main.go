//go:build verif

// Command c07 drives the real distribution-layer framer (writer and iterator services of every
// node of an in-memory 1-3 node cluster, core/pkg/distribution/mock) through write scripts and
// iterator traversals issued through chosen gateway nodes, and, for reference, applies the same
// writes and traversals to ONE stand-alone cesium store holding all channels. It prints: the
// result of every writer operation, what each node's own storage engine holds afterwards, and
// the answer to every traversal command of the cluster iterator on every gateway, of each node's
// own storage iterator and of the reference store. It also exposes the two response
// synchronizers as pure functions. Line protocol: one JSON case per stdin line, one JSON result
// per stdout line.
package main

import (
	"bufio"
	"context"
	"encoding/json"
	"fmt"
	"os"
	"sort"
	"strings"
	"sync/atomic"
	"time"

	"github.com/onsi/gomega"
	"github.com/synnaxlabs/cesium"
	"github.com/synnaxlabs/freighter"
	"github.com/synnaxlabs/synnax/pkg/distribution"
	"github.com/synnaxlabs/synnax/pkg/distribution/channel"
	"github.com/synnaxlabs/synnax/pkg/distribution/framer"
	"github.com/synnaxlabs/synnax/pkg/distribution/framer/deleter"
	"github.com/synnaxlabs/synnax/pkg/distribution/framer/frame"
	"github.com/synnaxlabs/synnax/pkg/distribution/framer/iterator"
	"github.com/synnaxlabs/synnax/pkg/distribution/framer/relay"
	"github.com/synnaxlabs/synnax/pkg/distribution/framer/writer"
	"github.com/synnaxlabs/synnax/pkg/distribution/mock"
	"github.com/synnaxlabs/synnax/pkg/distribution/node"
	tmock "github.com/synnaxlabs/synnax/pkg/distribution/transport/mock"
	"github.com/synnaxlabs/x/address"
	xfs "github.com/synnaxlabs/x/io/fs"
	"github.com/synnaxlabs/x/telem"
)

type group struct {
	Node uint32   `json:"node"`
	Idx  string   `json:"idx"`
	Data []string `json:"data"`
}
type virt struct {
	Name string `json:"name"`
	Node uint32 `json:"node"` // 4095 = free
}
type col struct {
	Name string  `json:"name"`
	Vals []int64 `json:"vals"`
}
type sop struct {
	Op    string   `json:"op"` // open | write | commit | close
	W     int      `json:"w"`
	Gw    uint32   `json:"gw"`
	Chans []string `json:"chans"`
	Bogus []uint32 `json:"bogus"` // literal extra keys (unknown channels)
	Start int64    `json:"start"`
	Auto  bool     `json:"auto"`
	// open: while this writer is opened, node Gw's writer transport client cannot reach node Cut
	// (0 = no fault): a stream to that node fails with errUnreachable
	Cut  uint32 `json:"cut"`
	Cols []col  `json:"cols"`
	// write: key mask applied to the frame before it is written (Frame.KeepKeys / ExcludeKeys):
	// "keep" | "exclude" | "" ; MaskNames are channel names
	Mask      string   `json:"mask"`
	MaskNames []string `json:"mask_names"`
}
type icmd struct {
	Cmd  string `json:"cmd"` // seek_first seek_last next prev next_auto prev_auto seek_ge seek_le valid set_bounds
	Arg  int64  `json:"arg"`
	Arg2 int64  `json:"arg2"` // set_bounds: [arg, arg2)
}
type iterSpec struct {
	Chans []string `json:"chans"`
	Bogus []uint32 `json:"bogus"`
	Lo    int64    `json:"lo"`
	Hi    int64    `json:"hi"` // 0 = max
	Chunk int64    `json:"chunk"` // samples per AutoSpan step (0 = default)
	Cmds  []icmd   `json:"cmds"`
}
type tcase struct {
	ID     int        `json:"id"`
	Kind   string     `json:"kind"` // cluster | sync_w | sync_i
	Nodes  int        `json:"nodes"`
	Groups []group    `json:"groups"`
	Virt   []virt     `json:"virt"`
	Script []sop      `json:"script"`
	Iters  []iterSpec `json:"iters"`
	Resps  [][]int64  `json:"resps"`
	// NoSettle: do not wait for a failed writer's leaseholders to release their storage writers
	NoSettle bool `json:"no_settle"`
}

type opOut struct {
	Err   string             `json:"err"`
	Text  string             `json:"text"`
	End   int64              `json:"end"`
	Keys  []uint32           `json:"keys"` // resolved keys of an open
	After map[string][]int64 `json:"after"` // commit: key -> samples on its leaseholder's engine right after the ack
}
type cmdOut struct {
	Ack bool               `json:"ack"`
	Fr  map[string][]int64 `json:"fr"`
}
type travOut struct {
	Err  string   `json:"err"`
	Text string   `json:"text"`
	Cmds []cmdOut `json:"cmds"`
}
type iterOut struct {
	Keys    []uint32           `json:"keys"`
	Cluster map[string]travOut `json:"cluster"` // gateway node -> traversal through the cluster iterator
	Direct  map[string]travOut `json:"direct"`  // node -> its own storage iterator over its own keys
	Ref     travOut            `json:"ref"`     // the reference single store
}
type result struct {
	ID     int                           `json:"id"`
	Keys   map[string]uint32             `json:"keys"` // channel name -> key
	Ops    []opOut                       `json:"ops"`
	Stores map[string]map[string][]int64 `json:"stores"` // node -> key -> samples (keys it does not have are absent)
	Ref    map[string][]int64            `json:"ref"`    // reference store: key -> samples
	Iters  []iterOut                     `json:"iters"`
	Sync   [][]int64                     `json:"sync"`
	Panic  *string                       `json:"panic"`
	Note   string                        `json:"note"`
	Hang   string                        `json:"hang"` // non-empty: the case did not finish; where it was
}

var progress atomic.Value // what the running case is doing (for the watchdog)

var ctx = context.Background()

func classify(err error) string {
	if err == nil {
		return ""
	}
	s := err.Error()
	switch {
	case strings.Contains(s, "verif: peer unreachable"):
		return "unreachable"
	case strings.Contains(s, "missing channels"), strings.Contains(s, "hannels with keys") && strings.Contains(s, "not found"):
		return "missing"
	case strings.Contains(s, "cannot read from free channel"):
		return "free_key"
	case strings.Contains(s, "some channel keys") && strings.Contains(s, "not found"):
		return "not_found"
	case strings.Contains(s, "invalid key"):
		return "invalid_key"
	case strings.Contains(s, "keys") && strings.Contains(s, "must be non-empty"), strings.Contains(s, "keys: "):
		return "empty_keys"
	default:
		return "other"
	}
}

func samples(s telem.MultiSeries) []int64 {
	out := []int64{}
	for _, ser := range s.Series {
		out = append(out, telem.UnmarshalSeries[int64](ser)...)
	}
	return out
}

func frameOut(keys []uint32, get func(k uint32) telem.MultiSeries) map[string][]int64 {
	m := map[string][]int64{}
	for _, k := range keys {
		v := samples(get(k))
		if len(v) > 0 {
			m[fmt.Sprint(k)] = v
		}
	}
	return m
}

type boundsSetter interface{ SetBounds(telem.TimeRange) }
type boundsSetterAck interface{ SetBounds(telem.TimeRange) bool }

type anyIter interface {
	SeekFirst() bool
	SeekLast() bool
	Next(telem.TimeSpan) bool
	Prev(telem.TimeSpan) bool
	SeekGE(telem.TimeStamp) bool
	SeekLE(telem.TimeStamp) bool
	Valid() bool
}

func runCmd(it anyIter, c icmd) bool {
	switch c.Cmd {
	case "seek_first":
		return it.SeekFirst()
	case "seek_last":
		return it.SeekLast()
	case "next":
		return it.Next(telem.TimeSpan(c.Arg))
	case "prev":
		return it.Prev(telem.TimeSpan(c.Arg))
	case "seek_ge":
		return it.SeekGE(telem.TimeStamp(c.Arg))
	case "seek_le":
		return it.SeekLE(telem.TimeStamp(c.Arg))
	case "next_auto":
		return it.Next(cesium.AutoSpan)
	case "prev_auto":
		return it.Prev(cesium.AutoSpan)
	case "set_bounds":
		tr := telem.TimeRange{Start: telem.TimeStamp(c.Arg), End: telem.TimeStamp(c.Arg2)}
		if b, ok := it.(boundsSetterAck); ok {
			return b.SetBounds(tr)
		}
		it.(boundsSetter).SetBounds(tr) // a storage iterator always acknowledges SetBounds
		return true
	default:
		return it.Valid()
	}
}

func isSeekOrValid(c string) bool {
	return c != "next" && c != "prev" && c != "next_auto" && c != "prev_auto"
}

func bounds(sp iterSpec) telem.TimeRange {
	tr := telem.TimeRangeMax
	if sp.Hi != 0 {
		tr = telem.TimeRange{Start: telem.TimeStamp(sp.Lo), End: telem.TimeStamp(sp.Hi)}
	}
	return tr
}

func travCesium(db *cesium.DB, keys []uint32, sp iterSpec) (t travOut) {
	it, err := db.OpenIterator(cesium.IteratorConfig{Channels: keys, Bounds: bounds(sp), AutoChunkSize: sp.Chunk})
	if err != nil {
		return travOut{Err: "open", Text: err.Error()}
	}
	defer func() { _ = it.Close() }()
	for _, c := range sp.Cmds {
		ack := runCmd(it, c)
		co := cmdOut{Ack: ack, Fr: map[string][]int64{}}
		if !isSeekOrValid(c.Cmd) {
			fr := it.Value()
			co.Fr = frameOut(keys, func(k uint32) telem.MultiSeries { return fr.Get(k) })
		}
		t.Cmds = append(t.Cmds, co)
	}
	return t
}

func travCluster(nd mock.Node, keys []uint32, sp iterSpec) (t travOut) {
	it, err := nd.Framer.OpenIterator(ctx, framer.IteratorConfig{Keys: channel.KeysFromUint32(keys), Bounds: bounds(sp), ChunkSize: sp.Chunk})
	if err != nil {
		return travOut{Err: classify(err), Text: err.Error()}
	}
	defer func() { _ = it.Close() }()
	for _, c := range sp.Cmds {
		ack := runCmd(it, c)
		co := cmdOut{Ack: ack, Fr: map[string][]int64{}}
		if !isSeekOrValid(c.Cmd) {
			fr := it.Value()
			co.Fr = frameOut(keys, func(k uint32) telem.MultiSeries { return fr.Get(channel.Key(k)) })
		}
		t.Cmds = append(t.Cmds, co)
	}
	return t
}

func readAll(db *cesium.DB, k uint32) ([]int64, bool) {
	if _, err := db.RetrieveChannel(ctx, k); err != nil {
		return nil, false
	}
	fr, err := db.Read(ctx, telem.TimeRangeMax, k)
	if err != nil {
		return []int64{-1}, true
	}
	return samples(fr.Get(k)), true
}

func runSync(c tcase) (res result) {
	res.ID = c.ID
	res.Sync = [][]int64{}
	b := func(x int64) bool { return x != 0 }
	i64 := func(x bool) int64 {
		if x {
			return 1
		}
		return 0
	}
	if c.Kind == "sync_w" {
		f := writer.VerifNewSynchronizer(c.Nodes)
		for _, r := range c.Resps {
			cmd := writer.CommandWrite
			if b(r[1]) {
				cmd = writer.CommandCommit
			}
			o, ok := f(writer.Response{SeqNum: int(r[0]), Command: cmd, End: telem.TimeStamp(r[2]), Authorized: b(r[3])})
			if ok {
				res.Sync = append(res.Sync, []int64{1, int64(o.SeqNum), i64(o.Command == writer.CommandCommit), int64(o.End), i64(o.Authorized)})
			} else {
				res.Sync = append(res.Sync, []int64{0})
			}
		}
		return res
	}
	f := iterator.VerifNewSynchronizer(c.Nodes)
	for _, r := range c.Resps {
		v := iterator.ResponseVariantAck
		if b(r[0]) {
			v = iterator.ResponseVariantData
		}
		o, ok := f(iterator.Response{Variant: v, SeqNum: int(r[1]), Ack: b(r[2])})
		if ok {
			res.Sync = append(res.Sync, []int64{1, i64(o.Variant == iterator.ResponseVariantData), int64(o.SeqNum), i64(o.Ack)})
		} else {
			res.Sync = append(res.Sync, []int64{0})
		}
	}
	return res
}

// waitReleased polls (bounded) until no engine reports a controlling writer on any of keys.
func waitReleased(cl *mock.Cluster, keys []uint32) {
	want := map[uint32]bool{}
	for _, k := range keys {
		want[k] = true
	}
	deadline := time.Now().Add(3 * time.Second)
	for time.Now().Before(deadline) {
		held := false
		for _, nd := range cl.Nodes {
			for _, t := range nd.Storage.TS.ControlStates().Transfers {
				if t.To != nil && want[uint32(t.To.Resource)] {
					held = true
				}
			}
		}
		if !held {
			return
		}
		time.Sleep(2 * time.Millisecond)
	}
}

type wpair struct {
	dist *framer.Writer
	ref  *cesium.Writer
	keys []uint32
}

// framerTransport is a framer transport assembled from the stock in-memory networks, so that the
// harness can put a middleware on each node's writer client.
type framerTransport struct {
	iter    iterator.Transport
	writer  writer.Transport
	relay   relay.Transport
	deleter deleter.Transport
}

var _ framer.Transport = framerTransport{}

func (d framerTransport) Iterator() iterator.Transport { return d.iter }
func (d framerTransport) Writer() writer.Transport     { return d.writer }
func (d framerTransport) Relay() relay.Transport       { return d.relay }
func (d framerTransport) Deleter() deleter.Transport   { return d.deleter }

var errUnreachable = fmt.Errorf("verif: peer unreachable")

// faultyCluster is the mock cluster with one addition: blocked[g] holds the address that writer
// streams dialed from node g cannot reach at the moment ("" = all reachable).
type faultyCluster struct {
	*mock.Cluster
	addrs   map[uint32]address.Address
	blocked map[uint32]*atomic.Value
}

func provisionFaulty(n int) *faultyCluster {
	fc := &faultyCluster{Cluster: mock.NewCluster(), addrs: map[uint32]address.Address{}, blocked: map[uint32]*atomic.Value{}}
	var (
		addrs     = address.NewLocalFactory(0) // the same sequence the mock cluster hands out
		iterNet   = tmock.NewIteratorNetwork()
		writerNet = tmock.NewWriterNetwork()
		relayNet  = tmock.NewRelayNetwork()
		deleteNet = tmock.NewDeleterNetwork()
	)
	for i := 1; i <= n; i++ {
		addr := addrs.Next()
		b := &atomic.Value{}
		b.Store(address.Address(""))
		wt := writerNet.New(addr, 1)
		wt.Client().Use(freighter.MiddlewareFunc(func(fCtx freighter.Context, next freighter.Next) (freighter.Context, error) {
			if t := b.Load().(address.Address); t != "" && fCtx.Target == t {
				return fCtx, errUnreachable
			}
			return next(fCtx)
		}))
		nd := fc.Provision(ctx, distribution.LayerConfig{FrameTransport: framerTransport{
			iter: iterNet.New(addr, 1), writer: wt, relay: relayNet.New(addr, 1), deleter: deleteNet.New(addr),
		}})
		if nd.Cluster.Host().Address != addr {
			panic(fmt.Sprintf("node %v advertises %v, the harness expected %v", nd.Cluster.HostKey(), nd.Cluster.Host().Address, addr))
		}
		k := uint32(nd.Cluster.HostKey())
		fc.addrs[k] = addr
		fc.blocked[k] = b
	}
	return fc
}

func runCluster(c tcase) (res result) {
	res.ID = c.ID
	fc := provisionFaulty(c.Nodes)
	cl := fc.Cluster
	defer func() { _ = cl.Close() }()
	ref, err := cesium.Open(ctx, "", cesium.WithFS(xfs.NewMem()))
	if err != nil {
		panic(err)
	}
	defer func() { _ = ref.Close() }()
	res.Keys = map[string]uint32{}
	persisted := map[uint32]bool{}
	refCreate := func(ch channel.Channel) {
		if ch.Free() {
			return
		}
		if err := ref.CreateChannel(ctx, ch.Storage()); err != nil {
			panic("reference store: " + err.Error())
		}
	}
	// channels are created through node 1; index first, then its data channels
	svc := cl.Nodes[1].Channel
	for _, g := range c.Groups {
		idx := channel.Channel{Name: g.Idx, Leaseholder: node.Key(g.Node), DataType: telem.TimeStampT, IsIndex: true}
		if err := svc.Create(ctx, &idx); err != nil {
			panic(err)
		}
		res.Keys[g.Idx] = uint32(idx.Key())
		persisted[uint32(idx.Key())] = true
		refCreate(idx)
		for _, d := range g.Data {
			dc := channel.Channel{Name: d, Leaseholder: node.Key(g.Node), DataType: telem.Int64T, LocalIndex: idx.LocalKey}
			if err := svc.Create(ctx, &dc); err != nil {
				panic(err)
			}
			res.Keys[d] = uint32(dc.Key())
			persisted[uint32(dc.Key())] = true
			refCreate(dc)
		}
	}
	for _, v := range c.Virt {
		vc := channel.Channel{Name: v.Name, Leaseholder: node.Key(v.Node), DataType: telem.Int64T, Virtual: true}
		if err := svc.Create(ctx, &vc); err != nil {
			panic(err)
		}
		res.Keys[v.Name] = uint32(vc.Key())
		refCreate(vc)
	}
	// every node must know every channel before the script starts
	want := len(res.Keys)
	deadline := time.Now().Add(5 * time.Second)
	for {
		ok := true
		for _, nd := range cl.Nodes {
			var chs []channel.Channel
			ks := make(channel.Keys, 0, want)
			for _, k := range res.Keys {
				ks = append(ks, channel.Key(k))
			}
			if err := nd.Channel.NewRetrieve().Where(channel.MatchKeys(ks...)).Entries(&chs).Exec(ctx, nil); err != nil || len(chs) != want {
				ok = false
			}
		}
		if ok {
			break
		}
		if time.Now().After(deadline) {
			res.Note = "unsettled"
			return res
		}
		time.Sleep(10 * time.Millisecond)
	}
	resolve := func(names []string, bogus []uint32) []uint32 {
		out := []uint32{}
		for _, n := range names {
			out = append(out, res.Keys[n])
		}
		return append(out, bogus...)
	}
	writers := map[int]*wpair{}
	for oi, o := range c.Script {
		var out opOut
		progress.Store(fmt.Sprintf("script op %d (%s, writer %d)", oi, o.Op, o.W))
		switch o.Op {
		case "open":
			keys := resolve(o.Chans, o.Bogus)
			out.Keys = keys
			auto := o.Auto
			if b := fc.blocked[o.Gw]; o.Cut != 0 && b != nil {
				b.Store(fc.addrs[o.Cut])
			}
			w, err := cl.Nodes[node.Key(o.Gw)].Framer.OpenWriter(ctx, framer.WriterConfig{
				Keys: channel.KeysFromUint32(keys), Start: telem.TimeStamp(o.Start), EnableAutoCommit: &auto,
			})
			if b := fc.blocked[o.Gw]; b != nil {
				b.Store(address.Address(""))
			}
			out.Err = classify(err)
			if err != nil {
				out.Text = err.Error()
				if out.Err == "unreachable" && !c.NoSettle {
					// the peers dialed before the unreachable one close their storage writers
					// asynchronously once the gateway has closed their streams
					waitReleased(cl, keys)
				}
				break
			}
			refKeys := []uint32{}
			for _, k := range keys {
				if channel.Key(k).Free() {
					continue
				}
				refKeys = append(refKeys, k)
			}
			var rw *cesium.Writer
			if len(refKeys) > 0 {
				rw, err = ref.OpenWriter(ctx, cesium.WriterConfig{Channels: refKeys, Start: telem.TimeStamp(o.Start), EnableAutoCommit: &auto})
				if err != nil {
					panic("reference store open: " + err.Error())
				}
			}
			writers[o.W] = &wpair{dist: w, ref: rw, keys: keys}
		case "write":
			wp := writers[o.W]
			if wp == nil {
				out.Err = "no_writer"
				break
			}
			fr := frame.Alloc(len(o.Cols))
			rfr := cesium.Frame{}
			for _, cc := range o.Cols {
				k, ok := res.Keys[cc.Name]
				if !ok {
					k = 0xFFFFF
				}
				var ser telem.Series
				if persisted[k] && strings.HasPrefix(cc.Name, "t") {
					ts := make([]telem.TimeStamp, len(cc.Vals))
					for i, v := range cc.Vals {
						ts[i] = telem.TimeStamp(v)
					}
					ser = telem.NewSeries(ts)
				} else {
					ser = telem.NewSeriesV(cc.Vals...)
				}
				fr = fr.Append(channel.Key(k), ser)
				if !channel.Key(k).Free() {
					rfr = rfr.Append(k, ser)
				}
			}
			if o.Mask != "" {
				mk := []uint32{}
				for _, n := range o.MaskNames {
					if k, ok := res.Keys[n]; ok {
						mk = append(mk, k)
					}
				}
				if o.Mask == "keep" {
					fr = fr.KeepKeys(channel.KeysFromUint32(mk))
					rfr = rfr.KeepKeys(mk)
				} else {
					fr = fr.ExcludeKeys(channel.KeysFromUint32(mk))
					rfr = rfr.ExcludeKeys(mk)
				}
			}
			_, err := wp.dist.Write(fr)
			if err == nil {
				// Write does not wait for an acknowledgement (Sync=false): a frame the
				// validator rejects is reported by the next call. Ask right away.
				inWriter := map[uint32]bool{}
				for _, k := range wp.keys {
					inWriter[k] = true
				}
				masked := func(name string) bool {
					if o.Mask == "" {
						return false
					}
					in := false
					for _, n := range o.MaskNames {
						if n == name {
							in = true
						}
					}
					return (o.Mask == "keep") != in
				}
				for _, cc := range o.Cols {
					if masked(cc.Name) {
						continue // the validator skips masked entries
					}
					if k, ok := res.Keys[cc.Name]; !ok || !inWriter[k] {
						_, err = wp.dist.Commit()
						if err == nil {
							err = fmt.Errorf("frame with a key outside the writer was accepted")
						}
						break
					}
				}
			}
			out.Err = classify(err)
			if err != nil {
				out.Text = err.Error()
				delete(writers, o.W)
				if wp.ref != nil {
					_ = wp.ref.Close()
				}
				if !c.NoSettle {
					// A FAILED distribution writer returns before its peer leaseholders have
					// released their storage writers (the pipeline is cancelled, nobody waits
					// for the peers' streams to end). A writer opened in that window joins the
					// stale control region and inherits its start (known finding F90). Keep the
					// history deterministic: wait until every involved engine has let go.
					waitReleased(cl, wp.keys)
				}
				break
			}
			if wp.ref != nil {
				if _, err := wp.ref.Write(rfr); err != nil {
					panic("reference store write: " + err.Error())
				}
			}
		case "commit":
			wp := writers[o.W]
			if wp == nil {
				out.Err = "no_writer"
				break
			}
			end, err := wp.dist.Commit()
			out.Err = classify(err)
			out.End = int64(end)
			if err != nil {
				out.Text = err.Error()
				delete(writers, o.W)
				if wp.ref != nil {
					_ = wp.ref.Close()
				}
				break
			}
			out.After = map[string][]int64{}
			for _, k := range wp.keys {
				if !persisted[k] {
					continue
				}
				if v, ok := readAll(cl.Nodes[channel.Key(k).Leaseholder()].Storage.TS, k); ok {
					out.After[fmt.Sprint(k)] = v
				}
			}
			if wp.ref != nil {
				if _, err := wp.ref.Commit(); err != nil {
					panic("reference store commit: " + err.Error())
				}
			}
		case "close":
			wp := writers[o.W]
			if wp == nil {
				out.Err = "no_writer"
				break
			}
			err := wp.dist.Close()
			out.Err = classify(err)
			if err != nil {
				out.Text = err.Error()
			}
			if wp.ref != nil {
				if err := wp.ref.Close(); err != nil {
					panic("reference store close: " + err.Error())
				}
			}
			delete(writers, o.W)
		}
		res.Ops = append(res.Ops, out)
	}
	for _, wp := range writers {
		_ = wp.dist.Close()
		if wp.ref != nil {
			_ = wp.ref.Close()
		}
	}
	// what every engine holds
	nodeKeys := []uint32{}
	for k := range cl.Nodes {
		nodeKeys = append(nodeKeys, uint32(k))
	}
	sort.Slice(nodeKeys, func(a, b int) bool { return nodeKeys[a] < nodeKeys[b] })
	res.Stores = map[string]map[string][]int64{}
	res.Ref = map[string][]int64{}
	for _, nk := range nodeKeys {
		m := map[string][]int64{}
		for k := range persisted {
			if v, ok := readAll(cl.Nodes[node.Key(nk)].Storage.TS, k); ok {
				m[fmt.Sprint(k)] = v
			}
		}
		res.Stores[fmt.Sprint(nk)] = m
	}
	for k := range persisted {
		if v, ok := readAll(ref, k); ok {
			res.Ref[fmt.Sprint(k)] = v
		}
	}
	for ii, sp := range c.Iters {
		progress.Store(fmt.Sprintf("traversal %d", ii))
		keys := resolve(sp.Chans, sp.Bogus)
		io := iterOut{Keys: keys, Cluster: map[string]travOut{}, Direct: map[string]travOut{}}
		for _, nk := range nodeKeys {
			io.Cluster[fmt.Sprint(nk)] = travCluster(cl.Nodes[node.Key(nk)], keys, sp)
			own := []uint32{}
			for _, k := range keys {
				if uint32(channel.Key(k).Leaseholder()) == nk && persisted[k] {
					own = append(own, k)
				}
			}
			if len(own) > 0 {
				io.Direct[fmt.Sprint(nk)] = travCesium(cl.Nodes[node.Key(nk)].Storage.TS, own, sp)
			}
		}
		allPersisted := true
		for _, k := range keys {
			if !persisted[k] {
				allPersisted = false
			}
		}
		if allPersisted && len(keys) > 0 {
			io.Ref = travCesium(ref, keys, sp)
		} else {
			io.Ref = travOut{Err: "n/a"}
		}
		res.Iters = append(res.Iters, io)
	}
	return res
}

func runCaseInner(c tcase) (res result) {
	defer func() {
		if r := recover(); r != nil {
			s := fmt.Sprint(r)
			res = result{ID: c.ID, Panic: &s}
		}
	}()
	if c.Kind == "sync_w" || c.Kind == "sync_i" {
		return runSync(c)
	}
	return runCluster(c)
}

// runCase runs the case under a watchdog: a writer or iterator call that never returns is
// reported (the stuck goroutines and their cluster are abandoned).
func runCase(c tcase) result {
	progress.Store("setup")
	done := make(chan result, 1)
	go func() { done <- runCaseInner(c) }()
	select {
	case r := <-done:
		return r
	case <-time.After(25 * time.Second):
		return result{ID: c.ID, Hang: fmt.Sprint(progress.Load())}
	}
}

func main() {
	gomega.RegisterFailHandler(func(message string, _ ...int) { panic("gomega: " + message) })
	in := bufio.NewScanner(os.Stdin)
	in.Buffer(make([]byte, 1<<20), 1<<26)
	out := bufio.NewWriter(os.Stdout)
	defer out.Flush()
	for in.Scan() {
		var c tcase
		if err := json.Unmarshal(in.Bytes(), &c); err != nil {
			fmt.Fprintln(os.Stderr, "bad case:", err)
			os.Exit(2)
		}
		b, _ := json.Marshal(runCase(c))
		out.Write(b)
		out.WriteByte('\n')
		out.Flush()
	}
}
