//go:build verif

// Command c16 drives the real ontology (ontology.Open over gorp.Wrap(memkv)) through
// scripted define/delete resource/relationship operations inside committed and aborted
// transactions, and after every operation dumps the raw tables and the parents /
// children / parents-then-children / descendants traversals of every identifier of the
// case universe. Line protocol: one JSON case per stdin line, one JSON result per stdout
// line. Every case runs under a watchdog: a hang (unbounded recursion of the cycle
// check) is reported in the result and the process re-executes itself for the
// remaining cases.
package main

import (
	"bufio"
	"context"
	"encoding/json"
	"fmt"
	"os"
	"sort"
	"sync"
	"syscall"
	"time"

	"github.com/synnaxlabs/synnax/pkg/distribution/ontology"
	"github.com/synnaxlabs/x/errors"
	"github.com/synnaxlabs/x/gorp"
	"github.com/synnaxlabs/x/graph"
	"github.com/synnaxlabs/x/kv/memkv"
	"github.com/synnaxlabs/x/query"
	"github.com/synnaxlabs/x/validate"
)

type idj struct {
	T string `json:"t"`
	K string `json:"k"`
}

func (i idj) id() ontology.ID { return ontology.ID{Type: ontology.ResourceType(i.T), Key: i.K} }

type op struct {
	Op string `json:"op"`
	A  idj    `json:"a"`
	B  idj    `json:"b"`
	Bs []idj  `json:"bs"`
	Ty string `json:"ty"`
}

type tcase struct {
	ID  int   `json:"id"`
	Ops []op  `json:"ops"`
	Ids []idj `json:"ids"`
}

type qres struct {
	E string      `json:"e"`
	R [][2]string `json:"r"`
}

type step struct {
	Err   string      `json:"err"`
	Res   [][2]string `json:"res"`
	Rels  [][5]string `json:"rels"`
	CRes  [][2]string `json:"cres"`
	CRels [][5]string `json:"crels"`
	Q     [][]qres    `json:"q"`
	Done  bool        `json:"done"`
}

type result struct {
	ID    int     `json:"id"`
	Steps []step  `json:"steps"`
	Panic *string `json:"panic"`
	Hang  bool    `json:"hang"`
}

func class(err error) string {
	switch {
	case err == nil:
		return "ok"
	case errors.Is(err, graph.ErrCyclicDependency):
		return "cyclic"
	case errors.Is(err, query.ErrNotFound):
		return "notfound"
	case errors.Is(err, validate.ErrValidation):
		return "validation"
	default:
		return "other:" + err.Error()
	}
}

func idPairs(ids []ontology.ID) [][2]string {
	out := make([][2]string, 0, len(ids))
	for _, i := range ids {
		out = append(out, [2]string{string(i.Type), i.Key})
	}
	sort.Slice(out, func(a, b int) bool {
		if out[a][0] != out[b][0] {
			return out[a][0] < out[b][0]
		}
		return out[a][1] < out[b][1]
	})
	return out
}

func scan(ctx context.Context, o *ontology.Ontology, tx gorp.Tx) ([][2]string, [][5]string, error) {
	res, rels, err := ontology.VerifScan(ctx, o, tx)
	if err != nil {
		return nil, nil, err
	}
	ids := make([]ontology.ID, 0, len(res))
	for _, r := range res {
		ids = append(ids, r.ID)
	}
	sort.Slice(rels, func(a, b int) bool { return rels[a].GorpKey() < rels[b].GorpKey() })
	rr := make([][5]string, 0, len(rels))
	for _, r := range rels {
		rr = append(rr, [5]string{string(r.From.Type), r.From.Key, string(r.Type), string(r.To.Type), r.To.Key})
	}
	return idPairs(ids), rr, nil
}

func traverse(ctx context.Context, w ontology.Writer, id ontology.ID, trs ...ontology.Traverser) qres {
	var res []ontology.Resource
	q := w.NewRetrieve().WhereIDs(id)
	for _, t := range trs {
		q = q.TraverseTo(t)
	}
	err := q.ExcludeFieldData(true).Entries(&res).Exec(ctx, nil)
	if err != nil {
		return qres{E: class(err), R: [][2]string{}}
	}
	return qres{E: "ok", R: idPairs(ontology.ResourceIDs(res))}
}

func descendants(ctx context.Context, w ontology.Writer, id ontology.ID) qres {
	ids, err := ontology.VerifDescendants(ctx, w, id)
	if err != nil {
		return qres{E: class(err), R: [][2]string{}}
	}
	return qres{E: "ok", R: idPairs(ids)}
}

type runner struct {
	mu    sync.Mutex
	steps []step
	panic *string
}

func (r *runner) run(c tcase) {
	defer func() {
		if rec := recover(); rec != nil {
			s := fmt.Sprint(rec)
			r.mu.Lock()
			r.panic = &s
			r.mu.Unlock()
		}
	}()
	ctx := context.Background()
	db := gorp.Wrap(memkv.New())
	defer func() { _ = db.Close() }()
	otg, err := ontology.Open(ctx, ontology.Config{DB: db})
	if err != nil {
		panic(err)
	}
	defer func() { _ = otg.Close() }()
	var tx gorp.Tx
	for _, o := range c.Ops {
		var e error
		w := otg.NewWriter(tx)
		switch o.Op {
		case "defres":
			e = w.DefineResource(ctx, o.A.id())
		case "delres":
			e = w.DeleteResource(ctx, o.A.id())
		case "defrel":
			e = w.DefineRelationship(ctx, o.A.id(), ontology.RelationshipType(o.Ty), o.B.id())
		case "defmany":
			to := make([]ontology.ID, 0, len(o.Bs))
			for _, b := range o.Bs {
				to = append(to, b.id())
			}
			e = w.DefineFromOneToManyRelationships(ctx, o.A.id(), ontology.RelationshipType(o.Ty), to)
		case "delrel":
			e = w.DeleteRelationship(ctx, o.A.id(), ontology.RelationshipType(o.Ty), o.B.id())
		case "begin":
			if tx == nil {
				tx = db.OpenTx()
			}
		case "commit":
			if tx != nil {
				e = tx.Commit(ctx)
				if ce := tx.Close(); e == nil {
					e = ce
				}
				tx = nil
			}
		case "abort":
			if tx != nil {
				e = tx.Close()
				tx = nil
			}
		default:
			panic("unknown op " + o.Op)
		}
		st := step{Err: class(e)}
		r.mu.Lock()
		r.steps = append(r.steps, st)
		r.mu.Unlock()
		var se error
		if st.Res, st.Rels, se = scan(ctx, otg, tx); se != nil {
			panic(se)
		}
		if st.CRes, st.CRels, se = scan(ctx, otg, nil); se != nil {
			panic(se)
		}
		w = otg.NewWriter(tx)
		for _, i := range c.Ids {
			id := i.id()
			st.Q = append(st.Q, []qres{
				traverse(ctx, w, id, ontology.ParentsTraverser),
				traverse(ctx, w, id, ontology.ChildrenTraverser),
				traverse(ctx, w, id, ontology.ParentsTraverser, ontology.ChildrenTraverser),
				descendants(ctx, w, id),
			})
		}
		st.Done = true
		r.mu.Lock()
		r.steps[len(r.steps)-1] = st
		r.mu.Unlock()
	}
	if tx != nil {
		_ = tx.Close()
	}
}

const watchdog = 4 * time.Second

func main() {
	inF := os.Stdin
	if len(os.Args) == 3 && os.Args[1] == "-in" {
		f, err := os.Open(os.Args[2])
		if err != nil {
			fmt.Fprintln(os.Stderr, err)
			os.Exit(2)
		}
		_ = os.Remove(os.Args[2])
		inF = f
	}
	in := bufio.NewScanner(inF)
	in.Buffer(make([]byte, 1<<20), 1<<26)
	var lines [][]byte
	for in.Scan() {
		b := append([]byte(nil), in.Bytes()...)
		if len(b) > 0 {
			lines = append(lines, b)
		}
	}
	out := bufio.NewWriter(os.Stdout)
	for li, line := range lines {
		var c tcase
		if err := json.Unmarshal(line, &c); err != nil {
			fmt.Fprintln(os.Stderr, "bad case:", err)
			os.Exit(2)
		}
		r := &runner{}
		done := make(chan struct{})
		go func() { r.run(c); close(done) }()
		hang := false
		select {
		case <-done:
		case <-time.After(watchdog):
			hang = true
		}
		r.mu.Lock()
		res := result{ID: c.ID, Steps: r.steps, Panic: r.panic, Hang: hang}
		b, _ := json.Marshal(res)
		r.mu.Unlock()
		out.Write(b)
		out.WriteByte('\n')
		if hang {
			// the runaway goroutine cannot be stopped: hand the remaining cases to a
			// fresh process image.
			out.Flush()
			if li+1 == len(lines) {
				os.Exit(0)
			}
			f, err := os.CreateTemp("", "c16rest")
			if err != nil {
				fmt.Fprintln(os.Stderr, err)
				os.Exit(2)
			}
			for _, l := range lines[li+1:] {
				f.Write(l)
				f.Write([]byte{'\n'})
			}
			f.Close()
			exe, _ := os.Executable()
			err = syscall.Exec(exe, []string{exe, "-in", f.Name()}, os.Environ())
			fmt.Fprintln(os.Stderr, "exec failed:", err)
			os.Exit(2)
		}
	}
	out.Flush()
}
