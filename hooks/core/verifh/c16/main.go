//go:build verif

// Command c16 drives the real ontology (ontology.Open over gorp.Wrap(memkv)) through
// scripted define/delete resource/relationship operations inside committed and aborted
// transactions, and after every operation dumps the raw tables and the parents /
// children / parents-then-children / descendants traversals of every identifier of the
// case universe. Line protocol: one JSON case per stdin line, one JSON result per stdout
// line. The cases are executed by a worker child process (the same binary started with
// -worker) under a per-case watchdog: a hang or a fatal crash (unbounded recursion of the
// cycle check ends in a stack overflow) is reported in the result of the case in flight
// and a fresh worker takes the remaining cases.
package main

import (
	"bufio"
	"bytes"
	"context"
	"encoding/json"
	"fmt"
	"io"
	"os"
	"os/exec"
	"sort"
	"strings"
	"sync/atomic"
	"time"

	"github.com/synnaxlabs/synnax/pkg/distribution/ontology"
	"github.com/synnaxlabs/x/errors"
	"github.com/synnaxlabs/x/gorp"
	"github.com/synnaxlabs/x/graph"
	"github.com/synnaxlabs/x/kv"
	"github.com/synnaxlabs/x/kv/memkv"
	"github.com/synnaxlabs/x/query"
	"github.com/synnaxlabs/x/validate"
)

type idj struct {
	T string `json:"t"`
	K string `json:"k"`
}

func (i idj) id() ontology.ID { return ontology.ID{Type: ontology.ResourceType(i.T), Key: i.K} }

type op struct {
	Op string `json:"op"`
	A  idj    `json:"a"`
	B  idj    `json:"b"`
	Bs []idj  `json:"bs"`
	Ty string `json:"ty"`
}

type tcase struct {
	ID  int   `json:"id"`
	Ops []op  `json:"ops"`
	Ids []idj `json:"ids"`
	// Scan selects the flavour whose relationship indexes failed to populate at open
	Scan bool `json:"scan"`
}

type qres struct {
	E string      `json:"e"`
	R [][2]string `json:"r"`
}

type step struct {
	Err   string      `json:"err"`
	Res   [][2]string `json:"res"`
	Rels  [][5]string `json:"rels"`
	CRes  [][2]string `json:"cres"`
	CRels [][5]string `json:"crels"`
	Q     [][]qres    `json:"q"`
	Done  bool        `json:"done"`
}

type result struct {
	ID    int     `json:"id"`
	Steps []step  `json:"steps"`
	Panic *string `json:"panic"`
	// set by the supervisor when the worker did not answer (Hang) or died (Crash);
	// At = index of the op in flight, AtErr = what that op's writer call returned ("" if
	// the call itself did not return)
	Hang  bool   `json:"hang"`
	Crash string `json:"crash"`
	At    int    `json:"at"`
	AtErr string `json:"at_err"`
}

// faultyDB fails the first iterator opened directly against the DB (not through a
// transaction) over the ontology Relationship table. That iterator is the one the table
// uses to populate its secondary indexes at open, so the by-To index stays invalid and the
// ParentsTraverser runs on its raw sequential-scan fallback for the whole case.
type faultyDB struct {
	kv.DB
	failed atomic.Bool
}

func (f *faultyDB) OpenIterator(opts kv.IteratorOptions) (kv.Iterator, error) {
	if bytes.Contains(opts.LowerBound, []byte("Relationship")) && f.failed.CompareAndSwap(false, true) {
		return nil, errors.New("injected I/O error while opening iterator")
	}
	return f.DB.OpenIterator(opts)
}

// openDB returns the gorp DB of a case and, for the scan-fallback flavour, a function that
// waits until the injected fault has been consumed by the background index population.
func openDB(scan bool) (*gorp.DB, func()) {
	if !scan {
		return gorp.Wrap(memkv.New()), func() {}
	}
	f := &faultyDB{DB: memkv.New()}
	return gorp.Wrap(f), func() {
		deadline := time.Now().Add(10 * time.Second)
		for !f.failed.Load() {
			if time.Now().After(deadline) {
				panic("relationship index population never opened an iterator")
			}
			time.Sleep(200 * time.Microsecond)
		}
	}
}

func class(err error) string {
	switch {
	case err == nil:
		return "ok"
	case errors.Is(err, graph.ErrCyclicDependency):
		return "cyclic"
	case errors.Is(err, query.ErrNotFound):
		return "notfound"
	case errors.Is(err, validate.ErrValidation):
		return "validation"
	default:
		return "other:" + err.Error()
	}
}

func idPairs(ids []ontology.ID) [][2]string {
	out := make([][2]string, 0, len(ids))
	for _, i := range ids {
		out = append(out, [2]string{string(i.Type), i.Key})
	}
	sort.Slice(out, func(a, b int) bool {
		if out[a][0] != out[b][0] {
			return out[a][0] < out[b][0]
		}
		return out[a][1] < out[b][1]
	})
	return out
}

func scan(ctx context.Context, o *ontology.Ontology, tx gorp.Tx) ([][2]string, [][5]string, error) {
	res, rels, err := ontology.VerifScan(ctx, o, tx)
	if err != nil {
		return nil, nil, err
	}
	ids := make([]ontology.ID, 0, len(res))
	for _, r := range res {
		ids = append(ids, r.ID)
	}
	sort.Slice(rels, func(a, b int) bool { return rels[a].GorpKey() < rels[b].GorpKey() })
	rr := make([][5]string, 0, len(rels))
	for _, r := range rels {
		rr = append(rr, [5]string{string(r.From.Type), r.From.Key, string(r.Type), string(r.To.Type), r.To.Key})
	}
	return idPairs(ids), rr, nil
}

func traverse(ctx context.Context, w ontology.Writer, id ontology.ID, trs ...ontology.Traverser) qres {
	var res []ontology.Resource
	q := w.NewRetrieve().WhereIDs(id)
	for _, t := range trs {
		q = q.TraverseTo(t)
	}
	err := q.ExcludeFieldData(true).Entries(&res).Exec(ctx, nil)
	if err != nil {
		return qres{E: class(err), R: [][2]string{}}
	}
	return qres{E: "ok", R: idPairs(ontology.ResourceIDs(res))}
}

func descendants(ctx context.Context, w ontology.Writer, id ontology.ID) qres {
	ids, err := ontology.VerifDescendants(ctx, w, id)
	if err != nil {
		return qres{E: class(err), R: [][2]string{}}
	}
	return qres{E: "ok", R: idPairs(ids)}
}

// runCase executes one case; progress (one line per completed writer call) goes to prog.
func runCase(c tcase, prog func(k int, e string)) (res result) {
	res.ID = c.ID
	defer func() {
		if rec := recover(); rec != nil {
			s := fmt.Sprint(rec)
			res.Panic = &s
		}
	}()
	ctx := context.Background()
	db, waitFault := openDB(c.Scan)
	defer func() { _ = db.Close() }()
	otg, err := ontology.Open(ctx, ontology.Config{DB: db})
	if err != nil {
		panic(err)
	}
	defer func() { _ = otg.Close() }()
	waitFault()
	var tx gorp.Tx
	defer func() {
		if tx != nil {
			_ = tx.Close()
		}
	}()
	// One Writer value serves every operation outside a transaction and one serves every
	// operation of a transaction (as the API layer and the services do: a writer is opened
	// once and used for a whole batch), so that any state a writer may keep between calls
	// takes part in the history. The observation queries below use fresh writers.
	wdb := otg.NewWriter(nil)
	var wtx ontology.Writer
	for k, o := range c.Ops {
		var e error
		w := wdb
		if tx != nil {
			w = wtx
		}
		prog(k, "")
		switch o.Op {
		case "defres":
			e = w.DefineResource(ctx, o.A.id())
		case "delres":
			e = w.DeleteResource(ctx, o.A.id())
		case "defrel":
			e = w.DefineRelationship(ctx, o.A.id(), ontology.RelationshipType(o.Ty), o.B.id())
		case "defmany":
			to := make([]ontology.ID, 0, len(o.Bs))
			for _, b := range o.Bs {
				to = append(to, b.id())
			}
			e = w.DefineFromOneToManyRelationships(ctx, o.A.id(), ontology.RelationshipType(o.Ty), to)
		case "delmany":
			ids := make([]ontology.ID, 0, len(o.Bs))
			for _, b := range o.Bs {
				ids = append(ids, b.id())
			}
			e = w.DeleteManyResources(ctx, ids)
		case "defmanyres":
			ids := make([]ontology.ID, 0, len(o.Bs))
			for _, b := range o.Bs {
				ids = append(ids, b.id())
			}
			e = w.DefineManyResources(ctx, ids)
		case "delrel":
			e = w.DeleteRelationship(ctx, o.A.id(), ontology.RelationshipType(o.Ty), o.B.id())
		case "begin":
			if tx == nil {
				tx = db.OpenTx()
				wtx = otg.NewWriter(tx)
			}
		case "commit":
			if tx != nil {
				e = tx.Commit(ctx)
				if ce := tx.Close(); e == nil {
					e = ce
				}
				tx = nil
			}
		case "abort":
			if tx != nil {
				e = tx.Close()
				tx = nil
			}
		default:
			panic("unknown op " + o.Op)
		}
		st := step{Err: class(e)}
		prog(k, st.Err)
		var se error
		if st.Res, st.Rels, se = scan(ctx, otg, tx); se != nil {
			panic(se)
		}
		if st.CRes, st.CRels, se = scan(ctx, otg, nil); se != nil {
			panic(se)
		}
		w = otg.NewWriter(tx)
		for _, i := range c.Ids {
			id := i.id()
			st.Q = append(st.Q, []qres{
				traverse(ctx, w, id, ontology.ParentsTraverser),
				traverse(ctx, w, id, ontology.ChildrenTraverser),
				traverse(ctx, w, id, ontology.ParentsTraverser, ontology.ChildrenTraverser),
				descendants(ctx, w, id),
			})
		}
		res.Steps = append(res.Steps, st)
	}
	return res
}

const watchdog = 4 * time.Second

func worker() {
	in := bufio.NewScanner(os.Stdin)
	in.Buffer(make([]byte, 1<<20), 1<<26)
	out := bufio.NewWriter(os.Stdout)
	for in.Scan() {
		var c tcase
		if err := json.Unmarshal(in.Bytes(), &c); err != nil {
			fmt.Fprintln(os.Stderr, "bad case:", err)
			os.Exit(2)
		}
		res := runCase(c, func(k int, e string) {
			fmt.Fprintf(out, "#%d %s\n", k, e)
			out.Flush()
		})
		b, _ := json.Marshal(res)
		out.Write(b)
		out.WriteByte('\n')
		out.Flush()
	}
}

type proc struct {
	cmd   *exec.Cmd
	in    io.WriteCloser
	lines chan string
}

func startWorker() *proc {
	exe, err := os.Executable()
	if err != nil {
		panic(err)
	}
	cmd := exec.Command(exe, "-worker")
	in, _ := cmd.StdinPipe()
	out, _ := cmd.StdoutPipe()
	cmd.Stderr = io.Discard
	if err := cmd.Start(); err != nil {
		panic(err)
	}
	p := &proc{cmd: cmd, in: in, lines: make(chan string, 64)}
	go func() {
		rd := bufio.NewReaderSize(out, 1<<20)
		for {
			l, err := rd.ReadString('\n')
			if len(l) > 0 && err == nil {
				p.lines <- strings.TrimRight(l, "\n")
			}
			if err != nil {
				close(p.lines)
				return
			}
		}
	}()
	return p
}

func (p *proc) kill() {
	_ = p.in.Close()
	_ = p.cmd.Process.Kill()
	_ = p.cmd.Wait()
}

func main() {
	if len(os.Args) == 2 && os.Args[1] == "-worker" {
		worker()
		return
	}
	in := bufio.NewScanner(os.Stdin)
	in.Buffer(make([]byte, 1<<20), 1<<26)
	out := bufio.NewWriter(os.Stdout)
	defer out.Flush()
	var p *proc
	for in.Scan() {
		line := append([]byte(nil), in.Bytes()...)
		if len(line) == 0 {
			continue
		}
		var c tcase
		if err := json.Unmarshal(line, &c); err != nil {
			fmt.Fprintln(os.Stderr, "bad case:", err)
			os.Exit(2)
		}
		if p == nil {
			p = startWorker()
		}
		_, _ = p.in.Write(append(line, '\n'))
		at, atErr := -1, ""
		deadline := time.After(watchdog)
		var final string
		failed := ""
	wait:
		for {
			select {
			case l, ok := <-p.lines:
				if !ok {
					failed = "crash"
					break wait
				}
				if strings.HasPrefix(l, "#") {
					fmt.Sscanf(l, "#%d %s", &at, &atErr)
					if !strings.Contains(l, " ") || strings.HasSuffix(l, " ") {
						atErr = ""
					}
					continue
				}
				final = l
				break wait
			case <-deadline:
				failed = "hang"
				break wait
			}
		}
		if failed != "" {
			p.kill()
			p = nil
			res := result{ID: c.ID, At: at, AtErr: atErr, Hang: failed == "hang"}
			if failed == "crash" {
				res.Crash = "worker process died (fatal runtime error, e.g. stack overflow)"
			}
			b, _ := json.Marshal(res)
			final = string(b)
		}
		out.WriteString(final)
		out.WriteByte('\n')
	}
	if p != nil {
		_ = p.in.Close()
		_ = p.cmd.Wait()
	}
}
