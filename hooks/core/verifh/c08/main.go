//go:build verif

// Command c08 drives the real frame wire codec (core/pkg/distribution/framer/codec) through
// scripts of codec construction, channel-set updates, Encode and Decode calls. Decode inputs
// are literal bytes or mutations of the bytes the previous Encode produced. Every Decode is
// wrapped in a runtime.MemStats TotalAlloc meter and a recover. Line protocol: one JSON case
// per stdin line, one JSON result per stdout line.
package main

import (
	"bufio"
	"bytes"
	"context"
	"encoding/hex"
	"encoding/json"
	"fmt"
	"io"
	"os"
	"runtime"
	"strings"
	"syscall"
	"testing/iotest"

	fhttp "github.com/synnaxlabs/freighter/http"
	"github.com/synnaxlabs/synnax/pkg/distribution/channel"
	"github.com/synnaxlabs/synnax/pkg/distribution/framer/codec"
	"github.com/synnaxlabs/synnax/pkg/distribution/framer/frame"
	"github.com/synnaxlabs/synnax/pkg/distribution/framer/writer"
	httpframer "github.com/synnaxlabs/synnax/pkg/transport/http/framer"
	"github.com/synnaxlabs/x/errors"
	"github.com/synnaxlabs/x/telem"
	"github.com/synnaxlabs/x/validate"
)

var dtByCode = []telem.DataType{
	telem.UnknownT, telem.Uint8T, telem.Uint16T, telem.Uint32T, telem.Uint64T, telem.Int8T,
	telem.Int16T, telem.Int32T, telem.Int64T, telem.Float32T, telem.Float64T,
	telem.TimeStampT, telem.UUIDT, telem.StringT, telem.BytesT, telem.JSONT,
}

func dtOf(code int) telem.DataType {
	if code < 0 || code >= len(dtByCode) {
		return telem.UnknownT
	}
	return dtByCode[code]
}

func codeOf(dt telem.DataType) int {
	for i, d := range dtByCode {
		if d == dt {
			return i
		}
	}
	return 0
}

type jseries struct {
	K    uint32 `json:"k"`
	DT   int    `json:"dt"`
	TS   uint64 `json:"ts"`
	TE   uint64 `json:"te"`
	AL   uint64 `json:"al"`
	Data string `json:"data"`
	// SP: when the frame is laid out in one shared block, keep the spare capacity of the
	// sub-slice (block[a:b]) instead of clipping it (block[a:b:b])
	SP int `json:"sp,omitempty"`
}

// shared describes how the series of an encode op are carved out of ONE backing block, the
// way a reader slices a buffer it filled in one go: Order lists the series indices in the
// order their bytes sit in the block, Pad bytes of 0xA5 follow.
type shared struct {
	Order []int `json:"order"`
	Pad   int   `json:"pad"`
}

type mutation struct {
	M   string `json:"m"`
	N   int    `json:"n"`
	Bit uint   `json:"bit"`
	Off int    `json:"off"`
	Val uint64 `json:"val"`
	Hex string `json:"hex"`
}

type op struct {
	Op       string     `json:"op"`
	Who      int        `json:"who"`
	Compress bool       `json:"compress"`
	Keys     []uint32   `json:"keys"`
	DTs      []int      `json:"dts"`
	KD       [][2]int64 `json:"kd"`
	Frame    []jseries  `json:"frame"`
	Stream   int        `json:"stream"`
	Src      string     `json:"src"`
	Bytes    string     `json:"bytes"`
	Mut      []mutation `json:"mut"`
	Shared   *shared    `json:"shared"`
}

type tcase struct {
	ID  int  `json:"id"`
	Ops []op `json:"ops"`
}

type out struct {
	Cls   int       `json:"cls"`
	Hex   string    `json:"hex,omitempty"`
	In    string    `json:"in,omitempty"`
	Frame []jseries `json:"frame,omitempty"`
	Alloc uint64    `json:"alloc"`
	Msg   string    `json:"msg,omitempty"`
	// Mutated: after Encode, 0 = the caller's sample memory is untouched, 1 = bytes of the
	// shared block outside every series changed, 2 = the data of a series of the frame changed
	Mutated int `json:"mutated"`
}

type result struct {
	ID   int   `json:"id"`
	Outs []out `json:"outs"`
	// DTs reports (density, isVariable) of every data type code as the real telem package
	// sees it, so that the model's table is compared on every case.
	DTs [][2]int `json:"dts"`
}

const (
	clsOK    = 0
	clsSkip  = 98
	clsPanic = 100
	clsOther = 50
)

func classify(err error) int {
	if err == nil {
		return clsOK
	}
	msg := err.Error()
	switch {
	case errors.Is(err, io.EOF):
		return 1
	case errors.Is(err, io.ErrUnexpectedEOF):
		return 2
	case errors.Is(err, validate.ErrValidation) && strings.Contains(msg, "invalid sequence number"):
		return 3
	case strings.Contains(msg, "unknown channel key"):
		return 4
	case errors.Is(err, validate.ErrValidation) && strings.Contains(msg, "not present in current state"):
		return 5
	case errors.Is(err, validate.ErrValidation) && strings.Contains(msg, "does not match series data type"):
		return 6
	case errors.Is(err, validate.ErrValidation) && strings.Contains(msg, "was not updated"):
		return 7
	}
	return clsOther
}

type slot struct {
	c       *codec.Codec
	pending int
	// hc is set for codecs obtained the way a websocket connection obtains one: from the
	// factory that http/framer.WithCodec registers on the stream server. Encode/Decode of
	// such a slot go through the http codec (writer-request messages, binary frame path).
	hc *httpframer.Codec
}

const frameContentType = "application/vnd.synnax.frame"

// plainReader hides every method of the wrapped reader except Read, like the message
// reader of a websocket connection.
type plainReader struct{ r io.Reader }

func (p plainReader) Read(b []byte) (int, error) { return p.r.Read(b) }

func mutate(b []byte, ms []mutation) []byte {
	b = append([]byte(nil), b...)
	for _, m := range ms {
		switch m.M {
		case "trunc":
			n := m.N
			if n < 0 {
				n = len(b) + n
			}
			if n < 0 {
				n = 0
			}
			if n < len(b) {
				b = b[:n]
			}
		case "flip":
			if len(b) > 0 {
				b[0] ^= 1 << (m.Bit % 8)
			}
		case "set32":
			if len(b) >= 4 {
				o := m.Off % (len(b) - 3)
				v := uint32(m.Val)
				b[o], b[o+1], b[o+2], b[o+3] = byte(v), byte(v>>8), byte(v>>16), byte(v>>24)
			}
		case "setbyte":
			if len(b) > 0 {
				b[m.Off%len(b)] = byte(m.Val)
			}
		case "append":
			x, _ := hex.DecodeString(m.Hex)
			b = append(b, x...)
		}
	}
	return b
}

var (
	ms1, ms2 runtime.MemStats
	metering bool
)

func runCase(c tcase) (res result) {
	res.ID = c.ID
	ctx := context.Background()
	slots := map[int]*slot{}
	var serverOpt fhttp.StreamServerOption
	var last []byte
	for _, o := range c.Ops {
		var r out
		func() {
			defer func() {
				if p := recover(); p != nil {
					r = out{Cls: clsPanic, Msg: fmt.Sprint(p), In: r.In}
					if metering {
						runtime.ReadMemStats(&ms2)
						r.Alloc = ms2.TotalAlloc - ms1.TotalAlloc
					}
				}
				metering = false
			}()
			switch o.Op {
			case "static":
				var opts []codec.Option
				if !o.Compress {
					opts = append(opts, codec.DisableAlignmentCompression())
				}
				dts := make([]telem.DataType, len(o.DTs))
				for i, d := range o.DTs {
					dts[i] = dtOf(d)
				}
				keys := make(channel.Keys, len(o.Keys))
				for i, k := range o.Keys {
					keys[i] = channel.Key(k)
				}
				slots[o.Who] = &slot{c: codec.NewStatic(keys, dts, opts...), pending: 1}
			case "conn":
				// one server process = one option object; every "conn" op is one more
				// connection negotiating the frame content type on it
				if serverOpt == nil {
					serverOpt = httpframer.WithCodec(nil)
				}
				ec, ok := fhttp.VerifC08NewStreamCodec(serverOpt, frameContentType)
				hc, ok2 := ec.(*httpframer.Codec)
				if !ok || !ok2 || hc.Codec == nil {
					panic("stream server did not resolve a frame codec")
				}
				slots[o.Who] = &slot{c: hc.Codec, hc: hc}
			case "dynamic":
				var opts []codec.Option
				if !o.Compress {
					opts = append(opts, codec.DisableAlignmentCompression())
				}
				slots[o.Who] = &slot{c: codec.NewDynamic(nil, opts...)}
			case "update":
				s, ok := slots[o.Who]
				if !ok || s.pending >= 50 {
					r.Cls = clsSkip
					return
				}
				keys := make(channel.Keys, len(o.Keys))
				for i, k := range o.Keys {
					keys[i] = channel.Key(k)
				}
				m := make(map[channel.Key]telem.DataType, len(o.KD))
				for _, kd := range o.KD {
					m[channel.Key(kd[0])] = dtOf(int(kd[1]))
				}
				s.c.VerifUpdate(keys, m)
				s.pending++
			case "encode":
				s, ok := slots[o.Who]
				if !ok {
					r.Cls = clsSkip
					return
				}
				keys := make([]channel.Key, len(o.Frame))
				series := make([]telem.Series, len(o.Frame))
				datas := make([][]byte, len(o.Frame))
				for i, js := range o.Frame {
					datas[i], _ = hex.DecodeString(js.Data)
				}
				var block, blockBefore []byte
				offs := make([][2]int, len(o.Frame))
				if o.Shared != nil {
					order := o.Shared.Order
					if len(order) != len(o.Frame) {
						order = order[:0]
						for i := range o.Frame {
							order = append(order, i)
						}
					}
					for _, i := range order {
						offs[i] = [2]int{len(block), len(block) + len(datas[i])}
						block = append(block, datas[i]...)
					}
					for i := 0; i < o.Shared.Pad; i++ {
						block = append(block, 0xA5)
					}
					block = block[:len(block):len(block)]
					blockBefore = append([]byte(nil), block...)
				}
				for i, js := range o.Frame {
					keys[i] = channel.Key(js.K)
					d := append([]byte(nil), datas[i]...)
					if o.Shared != nil {
						a, b := offs[i][0], offs[i][1]
						if js.SP != 0 {
							d = block[a:b]
						} else {
							d = block[a:b:b]
						}
					}
					series[i] = telem.Series{
						DataType:  dtOf(js.DT),
						TimeRange: telem.TimeRange{Start: telem.TimeStamp(js.TS), End: telem.TimeStamp(js.TE)},
						Alignment: telem.Alignment(js.AL),
						Data:      d,
					}
				}
				s.pending = 0
				var (
					b   []byte
					err error
				)
				if s.hc != nil {
					var m fhttp.WSMessage[httpframer.WriterRequest]
					m.Type = fhttp.WSMessageTypeData
					m.Payload.Command = writer.CommandWrite
					m.Payload.Frame = frame.NewMulti(keys, series)
					b, err = s.hc.Encode(ctx, m)
					if err == nil {
						if len(b) == 0 || b[0] != 255 {
							panic("http codec did not take the binary frame path")
						}
						b = b[1:]
					}
				} else {
					b, err = s.c.Encode(ctx, frame.NewMulti(keys, series))
				}
				r.Cls = classify(err)
				if err != nil {
					r.Msg = err.Error()
				} else {
					r.Hex = hex.EncodeToString(b)
					last = b
				}
				// the frame the caller still holds must be the frame it handed in
				for i := range series {
					if !bytes.Equal(series[i].Data, datas[i]) || len(series[i].Data) != len(datas[i]) {
						r.Mutated = 2
					}
				}
				if o.Shared != nil {
					for i := range series {
						if !bytes.Equal(block[offs[i][0]:offs[i][1]], datas[i]) {
							r.Mutated = 2
						}
					}
					if r.Mutated == 0 && !bytes.Equal(block, blockBefore) {
						r.Mutated = 1
					}
				}
			case "decode":
				s, ok := slots[o.Who]
				if !ok {
					r.Cls = clsSkip
					return
				}
				var in []byte
				if o.Src == "last" {
					in = mutate(last, o.Mut)
				} else {
					in, _ = hex.DecodeString(o.Bytes)
					in = mutate(in, o.Mut)
				}
				r.In = hex.EncodeToString(in)
				s.pending = 0
				var (
					fr  frame.Frame
					err error
				)
				var rd io.Reader
				switch o.Stream {
				case 1:
					rd = plainReader{bytes.NewReader(in)}
				case 2:
					rd = iotest.OneByteReader(bytes.NewReader(in))
				}
				runtime.ReadMemStats(&ms1)
				metering = true
				switch {
				case s.hc != nil:
					// one websocket message: the binary-frame marker, then the frame
					msg := append([]byte{255}, in...)
					var m fhttp.WSMessage[httpframer.WriterRequest]
					switch o.Stream {
					case 0:
						err = s.hc.Decode(ctx, msg, &m)
					case 1:
						err = s.hc.DecodeStream(ctx, plainReader{bytes.NewReader(msg)}, &m)
					default:
						err = s.hc.DecodeStream(ctx, iotest.OneByteReader(bytes.NewReader(msg)), &m)
					}
					fr = m.Payload.Frame
				case rd == nil:
					fr, err = s.c.Decode(in)
				default:
					fr, err = s.c.DecodeStream(rd)
				}
				runtime.ReadMemStats(&ms2)
				metering = false
				r.Alloc = ms2.TotalAlloc - ms1.TotalAlloc
				r.Cls = classify(err)
				if err != nil {
					r.Msg = err.Error()
					return
				}
				ks, ss := fr.RawKeys(), fr.RawSeries()
				for i := range ks {
					if fr.ShouldExcludeRaw(i) {
						continue
					}
					r.Frame = append(r.Frame, jseries{
						K: uint32(ks[i]), DT: codeOf(ss[i].DataType),
						TS: uint64(ss[i].TimeRange.Start), TE: uint64(ss[i].TimeRange.End),
						AL: uint64(ss[i].Alignment), Data: hex.EncodeToString(ss[i].Data),
					})
				}
			}
		}()
		if len(r.Msg) > 300 {
			r.Msg = r.Msg[:300]
		}
		res.Outs = append(res.Outs, r)
	}
	for _, dt := range dtByCode {
		v := 0
		if dt.IsVariable() {
			v = 1
		}
		res.DTs = append(res.DTs, [2]int{int(dt.Density()), v})
	}
	return res
}

func main() {
	// safety net for the sandbox: a runaway allocation kills this process, not the machine
	lim := syscall.Rlimit{Cur: 12 << 30, Max: 12 << 30}
	_ = syscall.Setrlimit(syscall.RLIMIT_AS, &lim)
	in := bufio.NewScanner(os.Stdin)
	in.Buffer(make([]byte, 1<<20), 1<<28)
	w := bufio.NewWriter(os.Stdout)
	defer w.Flush()
	for in.Scan() {
		var c tcase
		if err := json.Unmarshal(in.Bytes(), &c); err != nil {
			fmt.Fprintln(os.Stderr, "bad case:", err)
			os.Exit(2)
		}
		b, _ := json.Marshal(runCase(c))
		w.Write(b)
		w.WriteByte('\n')
	}
}
