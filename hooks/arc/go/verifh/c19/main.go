//go:build verif

// Command c19 drives the real Arc tool chain (arc.CompileText: parser -> analyzer -> compiler)
// on source text and executes the emitted WebAssembly with wazero (the engine the Synnax
// runtime uses) with the real math host module bound. Line protocol: one JSON case per stdin
// line, one JSON result per stdout line.
//
//	case   {"id":n,"src":"...","fn":"f","args":[["<u64>",...],...]}
//	result {"id":n,"stage":"ok|parse|analyze|compile|validate|instantiate|nofunc",
//	        "diag":"...","code":"<hex of the code-section entry of fn: locals, body, end>",
//	        "type":"<hex params>:<hex results>","imports":["math.pow_i64",...],
//	        "results":[{"v":"<u64>"} | {"trap":"<class>"}], "panic":"..."}
package main

import (
	"bufio"
	"context"
	"encoding/hex"
	"encoding/json"
	"fmt"
	"os"
	"runtime/debug"
	"strconv"
	"strings"
	"time"

	"github.com/synnaxlabs/arc"
	stlmath "github.com/synnaxlabs/arc/stl/math"
	"github.com/synnaxlabs/arc/stl/series"
	"github.com/synnaxlabs/arc/stl/stateful"
	stlstrings "github.com/synnaxlabs/arc/stl/strings"
	"github.com/synnaxlabs/arc/text"
	"github.com/tetratelabs/wazero"
)

type tcase struct {
	ID   int        `json:"id"`
	Src  string     `json:"src"`
	Fn   string     `json:"fn"`
	Args [][]string `json:"args"`
	// helper functions whose code-section entries are reported before the one of Fn
	ExtraFns []string `json:"extra_fns"`
}

type callRes struct {
	V    *string `json:"v,omitempty"`
	Trap *string `json:"trap,omitempty"`
}

type result struct {
	ID      int       `json:"id"`
	Stage   string    `json:"stage"`
	Diag    string    `json:"diag,omitempty"`
	Code    string    `json:"code,omitempty"`
	Type    string    `json:"type,omitempty"`
	Imports []string  `json:"imports"`
	Results []callRes `json:"results"`
	Panic   *string   `json:"panic"`
}

// ---- minimal reader of the emitted module (sections: type, import, function, export, code)
type rd struct {
	b []byte
	p int
}

func (r *rd) u32() uint32 {
	var v uint32
	var s uint
	for {
		c := r.b[r.p]
		r.p++
		v |= uint32(c&0x7f) << s
		if c&0x80 == 0 {
			return v
		}
		s += 7
	}
}
func (r *rd) bytes(n int) []byte { x := r.b[r.p : r.p+n]; r.p += n; return x }
func (r *rd) name() string       { n := int(r.u32()); return string(r.bytes(n)) }

type modinfo struct {
	types    [][2][]byte
	imports  []string
	impTypes []uint32
	funcs    []uint32
	exports  map[string]uint32
	codes    [][]byte
}

func parseModule(w []byte) (mi modinfo, err error) {
	defer func() {
		if r := recover(); r != nil {
			err = fmt.Errorf("malformed module: %v", r)
		}
	}()
	mi.exports = map[string]uint32{}
	r := &rd{b: w, p: 8}
	for r.p < len(w) {
		id := r.b[r.p]
		r.p++
		size := int(r.u32())
		s := &rd{b: w[r.p : r.p+size]}
		r.p += size
		switch id {
		case 1:
			n := int(s.u32())
			for i := 0; i < n; i++ {
				s.p++ // 0x60
				np := int(s.u32())
				ps := append([]byte{}, s.bytes(np)...)
				nr := int(s.u32())
				rs := append([]byte{}, s.bytes(nr)...)
				mi.types = append(mi.types, [2][]byte{ps, rs})
			}
		case 2:
			n := int(s.u32())
			for i := 0; i < n; i++ {
				m := s.name()
				nm := s.name()
				s.p++ // kind (func)
				mi.impTypes = append(mi.impTypes, s.u32())
				mi.imports = append(mi.imports, m+"."+nm)
			}
		case 3:
			n := int(s.u32())
			for i := 0; i < n; i++ {
				mi.funcs = append(mi.funcs, s.u32())
			}
		case 7:
			n := int(s.u32())
			for i := 0; i < n; i++ {
				nm := s.name()
				kind := s.b[s.p]
				s.p++
				idx := s.u32()
				if kind == 0 {
					mi.exports[nm] = idx
				}
			}
		case 10:
			n := int(s.u32())
			for i := 0; i < n; i++ {
				sz := int(s.u32())
				mi.codes = append(mi.codes, append([]byte{}, s.bytes(sz)...))
			}
		}
	}
	return mi, nil
}

func trapClass(err error) string {
	s := err.Error()
	switch {
	case strings.Contains(s, "integer divide by zero"):
		return "div_zero"
	case strings.Contains(s, "integer overflow"):
		return "int_overflow"
	case strings.Contains(s, "invalid conversion to integer"):
		return "invalid_conversion"
	case strings.Contains(s, "unreachable"):
		return "unreachable"
	case strings.Contains(s, "Cannot raise zero to a negative power"):
		return "pow_zero_neg"
	case strings.Contains(s, "stack overflow"):
		return "stack_overflow"
	case strings.Contains(s, "context deadline exceeded") || strings.Contains(s, "module closed"):
		return "timeout"
	}
	if len(s) > 160 {
		s = s[:160]
	}
	return "other: " + s
}

// the real stateful host module (stl/stateful): one node key per case, cleared before each case
var stHost *stateful.Host

func runCase(ctx context.Context, rt wazero.Runtime, c tcase) (res result) {
	if stHost != nil {
		stHost.ClearNode("c19")
		stHost.SetNodeKey("c19")
	}
	res.ID = c.ID
	res.Imports = []string{}
	res.Results = []callRes{}
	defer func() {
		if r := recover(); r != nil {
			s := clip(fmt.Sprintf("%v\n%s", r, firstLines(string(debug.Stack()), 40)))
			res.Panic = &s
		}
	}()
	t, pd := text.Parse(text.Text{Raw: c.Src})
	if pd != nil && !pd.Ok() {
		res.Stage, res.Diag = "parse", clip(pd.Error())
		return
	}
	_ = t
	prog, err := arc.CompileText(ctx, text.Text{Raw: c.Src}, arc.NewRoot(nil))
	if err != nil {
		// distinguish analyzer diagnostics from compiler errors: re-run the analyzer alone
		_, diag := text.Analyze(ctx, t, arc.NewRoot(nil))
		if diag != nil && !diag.Ok() {
			res.Stage, res.Diag = "analyze", clip(diag.Error())
		} else {
			res.Stage, res.Diag = "compile", clip(err.Error())
		}
		return
	}
	w := prog.Output.WASM
	mi, perr := parseModule(w)
	if perr != nil {
		res.Stage, res.Diag = "validate", perr.Error()
		return
	}
	res.Imports = mi.imports
	fn := c.Fn
	if fn == "" {
		fn = "f"
	}
	narrow := false
	for _, hn := range c.ExtraFns {
		if idx, ok := mi.exports[hn]; ok {
			li := int(idx) - len(mi.imports)
			if li >= 0 && li < len(mi.codes) {
				res.Code += hex.EncodeToString(mi.codes[li])
			}
		}
	}
	if idx, ok := mi.exports[fn]; ok {
		li := int(idx) - len(mi.imports)
		if li >= 0 && li < len(mi.codes) {
			res.Code += hex.EncodeToString(mi.codes[li])
			ty := mi.types[mi.funcs[li]]
			res.Type = hex.EncodeToString(ty[0]) + ":" + hex.EncodeToString(ty[1])
			narrow = len(ty[1]) == 1 && (ty[1][0] == 0x7f || ty[1][0] == 0x7d)
		}
	}
	cm, err := rt.CompileModule(ctx, w)
	if err != nil {
		res.Stage, res.Diag = "validate", clip(err.Error())
		return
	}
	defer cm.Close(ctx)
	mod, err := rt.InstantiateModule(ctx, cm, wazero.NewModuleConfig().WithName(""))
	if err != nil {
		res.Stage, res.Diag = "instantiate", clip(err.Error())
		return
	}
	defer mod.Close(ctx)
	res.Stage = "ok"
	f := mod.ExportedFunction(fn)
	if f == nil {
		if len(c.Args) > 0 {
			res.Stage = "nofunc"
		}
		return
	}
	for _, av := range c.Args {
		args := make([]uint64, len(av))
		for i, s := range av {
			args[i], _ = strconv.ParseUint(s, 10, 64)
		}
		cctx, cancel := context.WithTimeout(ctx, 3*time.Second)
		out, err := f.Call(cctx, args...)
		cancel()
		if err != nil {
			tc := trapClass(err)
			res.Results = append(res.Results, callRes{Trap: &tc})
			if tc == "timeout" {
				// the module was closed by the runtime: instantiate a fresh one for the next calls
				mod2, ierr := rt.InstantiateModule(ctx, cm, wazero.NewModuleConfig().WithName(""))
				if ierr != nil {
					break
				}
				defer mod2.Close(ctx)
				f = mod2.ExportedFunction(fn)
			}
			continue
		}
		s := ""
		if len(out) > 0 {
			v := out[0]
			if narrow {
				v &= 0xffffffff // upper half of a 32-bit result is unspecified by wazero
			}
			s = strconv.FormatUint(v, 10)
		}
		res.Results = append(res.Results, callRes{V: &s})
	}
	return
}

func clip(s string) string {
	if len(s) > 400 {
		s = s[:400]
	}
	q := strconv.QuoteToASCII(s) // keep the output line pure ASCII (no raw line separators)
	return q[1 : len(q)-1]
}

func firstLines(s string, n int) string {
	ls := strings.Split(s, "\n")
	if len(ls) > n {
		ls = ls[:n]
	}
	return strings.Join(ls, "\n")
}

func main() {
	ctx := context.Background()
	rt := wazero.NewRuntimeWithConfig(ctx, wazero.NewRuntimeConfigCompiler().WithCloseOnContextDone(true))
	if os.Getenv("C19_INTERP") != "" {
		rt = wazero.NewRuntimeWithConfig(ctx, wazero.NewRuntimeConfigInterpreter().WithCloseOnContextDone(true))
	}
	if _, err := stlmath.NewHost(ctx, rt); err != nil {
		fmt.Fprintln(os.Stderr, "math host:", err)
		os.Exit(2)
	}
	sh, err := stateful.NewHost(ctx, rt, series.NewProgramState(), stlstrings.NewProgramState())
	if err != nil {
		fmt.Fprintln(os.Stderr, "stateful host:", err)
		os.Exit(2)
	}
	stHost = sh
	in := bufio.NewReaderSize(os.Stdin, 1<<20)
	out := bufio.NewWriter(os.Stdout)
	defer out.Flush()
	enc := json.NewEncoder(out)
	for {
		line, err := in.ReadBytes('\n')
		if len(line) > 1 {
			var c tcase
			if jerr := json.Unmarshal(line, &c); jerr != nil {
				fmt.Fprintln(os.Stderr, "bad case:", jerr)
			} else {
				r := runCase(ctx, rt, c)
				_ = enc.Encode(r)
				out.Flush()
			}
		}
		if err != nil {
			break
		}
	}
}
