//go:build verif

// Command c12 drives the real aspen membership gossip (gossip.Gossip over store.Store
// and the freighter mock network) through scripted exchanges. Line protocol: one JSON
// case per stdin line, one JSON result per stdout line.
package main

import (
	"bufio"
	"context"
	"encoding/json"
	"fmt"
	"os"
	"sort"
	"strconv"
	"time"

	"github.com/synnaxlabs/aspen/internal/cluster"
	"github.com/synnaxlabs/aspen/internal/cluster/gossip"
	"github.com/synnaxlabs/aspen/internal/cluster/pledge"
	"github.com/synnaxlabs/aspen/internal/cluster/store"
	"github.com/synnaxlabs/aspen/internal/node"
	"github.com/synnaxlabs/freighter/mock"
	"github.com/synnaxlabs/x/address"
	xkv "github.com/synnaxlabs/x/kv"
	"github.com/synnaxlabs/x/kv/memkv"
	"github.com/synnaxlabs/x/version"
)

type rec struct {
	K, Gen, Ver, State, Addr uint32
}

type nodeInit struct {
	Key  uint32 `json:"key"`
	View []rec  `json:"view"`
}

type op struct {
	Op    string      `json:"op"`
	I     uint32      `json:"i"`
	J     uint32      `json:"j"`
	S     uint32      `json:"s"`
	Inner [][2]uint32 `json:"inner"` // exchange_n: operations that complete while j serves i's sync
}

// hookServer lets the harness run other operations at the moment a node has answered a sync
// (its ack is computed) and before the initiator receives that answer.
type hookServer struct {
	gossip.TransportServer
	hook *func()
}

func (h hookServer) BindHandler(handle func(ctx context.Context, m gossip.Message) (gossip.Message, error)) {
	h.TransportServer.BindHandler(func(ctx context.Context, m gossip.Message) (gossip.Message, error) {
		res, err := handle(ctx, m)
		if len(m.Digests) > 0 && len(m.Nodes) == 0 && *h.hook != nil {
			f := *h.hook
			*h.hook = nil
			f()
		}
		return res, err
	})
}

type tcase struct {
	ID    int        `json:"id"`
	Kind  string     `json:"kind"` // "" (scripted gossip) | "lifecycle" (cluster.Open restarts over persisted storage)
	Nodes []nodeInit `json:"nodes"`
	Ops   []op       `json:"ops"`
}

type result struct {
	ID    int                   `json:"id"`
	Init  []map[string]any      `json:"init,omitempty"`
	Outs  [][]map[string]any    `json:"outs"`
	Mids  [][]map[string]any    `json:"mids"` // one per exchange_n: the cluster after the inner operations
	Errs  []string              `json:"errs"`
	Panic *string               `json:"panic"`
}

func addrOf(a uint32) address.Address { return address.Address("a" + strconv.Itoa(int(a))) }

func addrNum(a address.Address) uint32 {
	s := string(a)
	if len(s) < 2 {
		return 0
	}
	n, _ := strconv.Atoi(s[1:])
	return uint32(n)
}

func dump(keys []uint32, stores map[uint32]store.Store) []map[string]any {
	out := make([]map[string]any, 0, len(keys))
	for _, k := range keys {
		st := stores[k].CopyState()
		recs := make([][]uint32, 0, len(st.Nodes))
		for _, n := range st.Nodes {
			recs = append(recs, []uint32{uint32(n.Key), n.Heartbeat.Generation, n.Heartbeat.Version, uint32(n.State), addrNum(n.Address)})
		}
		sort.Slice(recs, func(a, b int) bool { return recs[a][0] < recs[b][0] })
		out = append(out, map[string]any{"node": k, "view": recs})
	}
	return out
}

// runLifecycle opens a one-node cluster over a memkv store with cluster.Open and restarts it once per
// op: "restart" after a clean Close, "crash" from an image of the storage taken while the previous run was
// still alive (whatever Close writes afterwards is lost). It records the host's record after every start.
func runLifecycle(c tcase) (res result) {
	res.ID = c.ID
	defer func() {
		if r := recover(); r != nil {
			s := fmt.Sprint(r)
			res.Panic = &s
		}
	}()
	ctx := context.Background()
	gossipNet := mock.NewNetwork[gossip.Message, gossip.Message]()
	pledgeNet := mock.NewNetwork[pledge.Request, pledge.Response]()
	storageKey := []byte("verif-c12-cluster-state")
	addr := addrOf(1)
	open := func(db xkv.DB) *cluster.Cluster {
		cl, err := cluster.Open(ctx, cluster.Config{
			HostAddress: addr,
			Pledge: pledge.Config{
				Peers:           []address.Address{},
				TransportClient: pledgeNet.UnaryClient(),
				TransportServer: pledgeNet.UnaryServer(addr),
			},
			Gossip: gossip.Config{
				TransportClient: gossipNet.UnaryClient(),
				TransportServer: gossipNet.UnaryServer(addr),
				Interval:        time.Hour,
			},
			Storage:              db,
			StorageKey:           storageKey,
			StorageFlushInterval: cluster.FlushOnEvery,
		})
		if err != nil {
			panic(err)
		}
		return cl
	}
	dumpHost := func(cl *cluster.Cluster) []map[string]any {
		h := cl.Host()
		return []map[string]any{{"node": uint32(h.Key), "view": [][]uint32{{uint32(h.Key), h.Heartbeat.Generation, h.Heartbeat.Version, uint32(h.State), addrNum(h.Address)}}}}
	}
	db := memkv.New()
	run := open(db)
	res.Init = dumpHost(run)
	for _, o := range c.Ops {
		errS := ""
		if o.Op == "crash" {
			image, closer, err := db.Get(ctx, storageKey)
			var cp []byte
			if err == nil {
				cp = append([]byte(nil), image...)
				_ = closer.Close()
			}
			ndb := memkv.New()
			if err == nil {
				if e := ndb.Set(ctx, storageKey, cp); e != nil {
					errS = e.Error()
				}
			}
			_ = run.Close() // its last words go to the old store and are lost
			db = ndb
		} else {
			if err := run.Close(); err != nil {
				errS = err.Error()
			}
		}
		run = open(db)
		res.Outs = append(res.Outs, dumpHost(run))
		res.Errs = append(res.Errs, errS)
	}
	_ = run.Close()
	return res
}

func runCase(c tcase) (res result) {
	if c.Kind == "lifecycle" {
		return runLifecycle(c)
	}
	res.ID = c.ID
	defer func() {
		if r := recover(); r != nil {
			s := fmt.Sprint(r)
			res.Panic = &s
		}
	}()
	ctx := context.Background()
	net := mock.NewNetwork[gossip.Message, gossip.Message]()
	stores := map[uint32]store.Store{}
	gossips := map[uint32]*gossip.Gossip{}
	srvAddr := map[uint32]address.Address{}
	hooks := map[uint32]*func(){}
	var keys []uint32
	for _, n := range c.Nodes {
		keys = append(keys, n.Key)
		server := net.UnaryServer(address.Address("srv" + strconv.Itoa(int(n.Key))))
		srvAddr[n.Key] = server.Address
		hooks[n.Key] = new(func())
		s := store.New(ctx)
		g := node.Group{}
		for _, r := range n.View {
			g[node.Key(r.K)] = node.Node{
				Key:       node.Key(r.K),
				Address:   addrOf(r.Addr),
				State:     node.State(r.State),
				Heartbeat: version.Heartbeat{Generation: r.Gen, Version: r.Ver},
			}
		}
		s.SetState(ctx, store.State{Nodes: g, HostKey: node.Key(n.Key)})
		gs, err := gossip.New(gossip.Config{TransportServer: hookServer{TransportServer: server, hook: hooks[n.Key]}, TransportClient: net.UnaryClient(), Store: s})
		if err != nil {
			panic(err)
		}
		stores[n.Key] = s
		gossips[n.Key] = gs
	}
	sort.Slice(keys, func(a, b int) bool { return keys[a] < keys[b] })
	for _, o := range c.Ops {
		errS := ""
		switch o.Op {
		case "exchange":
			gi, ok1 := gossips[o.I]
			aj, ok2 := srvAddr[o.J]
			if ok1 && ok2 && o.I != o.J {
				if err := gi.GossipOnceWith(ctx, aj); err != nil {
					errS = err.Error()
				}
			}
		case "exchange_n":
			gi, ok1 := gossips[o.I]
			aj, ok2 := srvAddr[o.J]
			if ok1 && ok2 && o.I != o.J {
				inner := o.Inner
				hookRan := false
				*hooks[o.J] = func() {
					hookRan = true
					defer func() { res.Mids = append(res.Mids, dump(keys, stores)) }()
					for _, kl := range inner {
						k, l := kl[0], kl[1]
						if k == l {
							if g, ok := gossips[k]; ok {
								if _, has := stores[k].GetNode(node.Key(k)); has {
									g.VerifTick(ctx)
								}
							}
							continue
						}
						gk, okk := gossips[k]
						al, okl := srvAddr[l]
						if okk && okl {
							if err := gk.GossipOnceWith(ctx, al); err != nil && errS == "" {
								errS = err.Error()
							}
						}
					}
				}
				if err := gi.GossipOnceWith(ctx, aj); err != nil {
					errS = err.Error()
				}
				*hooks[o.J] = nil
				if !hookRan {
					res.Mids = append(res.Mids, dump(keys, stores))
				}
			} else {
				res.Mids = append(res.Mids, dump(keys, stores))
			}
		case "tick":
			if g, ok := gossips[o.I]; ok {
				if _, has := stores[o.I].GetNode(node.Key(o.I)); has {
					g.VerifTick(ctx)
				}
			}
		case "set_state":
			if s, ok := stores[o.I]; ok {
				if h, has := s.GetNode(node.Key(o.I)); has {
					h.State = node.State(o.S)
					h.Heartbeat = h.Heartbeat.Increment()
					s.SetNode(ctx, h)
				}
			}
		case "restart":
			// cluster.Open on an existing store: host.Heartbeat.Restart(); SetNode(host).
			if s, ok := stores[o.I]; ok {
				if h, has := s.GetNode(node.Key(o.I)); has {
					h.Heartbeat = h.Heartbeat.Restart()
					s.SetNode(ctx, h)
				}
			}
		}
		res.Outs = append(res.Outs, dump(keys, stores))
		res.Errs = append(res.Errs, errS)
	}
	return res
}

func main() {
	in := bufio.NewScanner(os.Stdin)
	in.Buffer(make([]byte, 1<<20), 1<<26)
	out := bufio.NewWriter(os.Stdout)
	defer out.Flush()
	for in.Scan() {
		var c tcase
		if err := json.Unmarshal(in.Bytes(), &c); err != nil {
			fmt.Fprintln(os.Stderr, "bad case:", err)
			os.Exit(2)
		}
		b, _ := json.Marshal(runCase(c))
		out.Write(b)
		out.WriteByte('\n')
	}
}
