//go:build verif

// Command c11 drives the real aspen pledge protocol (pledge.Pledge / pledge.Arbitrate:
// responsible.propose, buildQuorum, consultQuorum, juror.verdict) over the freighter
// mock unary network. Every node talks through a wrapping transport client that, per
// scripted decision, delivers / fails / cancels / delays each juror request, and every
// node's Candidates closure returns a scripted (possibly stale) membership view.
//
// All juror deliveries, view changes and Candidates() calls of a responsible are
// linearised by one mutex and written to an event log; the log (not the script) is what
// the Coq model replays and what the monitor judges. Line protocol: one JSON case per
// stdin line, one JSON result per stdout line.
package main

import (
	"bufio"
	"context"
	"encoding/binary"
	"encoding/json"
	"fmt"
	"math/rand"
	"os"
	"runtime"
	"sort"
	"strconv"
	"sync"
	"sync/atomic"
	"time"

	"github.com/google/uuid"
	"github.com/synnaxlabs/aspen/internal/cluster/pledge"
	"github.com/synnaxlabs/aspen/internal/node"
	"github.com/synnaxlabs/freighter/mock"
	"github.com/synnaxlabs/x/address"
	"github.com/synnaxlabs/x/errors"
)

type viewEnt [3]uint32 // key, state, addr

type gossipOp struct {
	M    uint32    `json:"m"`
	View []viewEnt `json:"view"`
}

type roundSpec struct {
	Def    string            `json:"def"` // D deliver | F fail | C cancelled ctx | R response lost | T timeout | L late | V rendezvous inside the juror
	By     map[string]string `json:"by"`  // juror addr -> decision
	Gossip []gossipOp        `json:"gossip"`
	Flush  bool              `json:"flush"`
	// Sync: the answers of this round reach the responsible together (each Send returns only once
	// every request of the round that has been issued has been answered, or after 3 ms)
	Sync bool `json:"sync"`
}

type attempt struct {
	Via    uint32      `json:"via"`
	How    string      `json:"how"` // D | F | R
	Rounds []roundSpec `json:"rounds"`
}

type pledgeSpec struct {
	P        uint32    `json:"p"`
	Max      int       `json:"max"`
	Attempts []attempt `json:"attempts"`
}

type op struct {
	Op      string       `json:"op"` // par | gossip | flush | probe
	Pledges []pledgeSpec `json:"pledges"`
	M       uint32       `json:"m"`
	View    []viewEnt    `json:"view"`
	Key     uint32       `json:"key"`
}

type memberInit struct {
	Addr uint32    `json:"addr"`
	CK   uint32    `json:"ck"`
	Max  int       `json:"max"`
	View []viewEnt `json:"view"`
}

type tcase struct {
	ID      int          `json:"id"`
	Kind    string       `json:"kind"` // "" = pledge-level script, "cluster" = cluster.Open-level script
	Members []memberInit `json:"members"`
	Ops     []op         `json:"ops"`
	RtUs    int          `json:"rt_us"`
	RvMs    int          `json:"rv_ms"`
	Jitter  int64        `json:"jitter"`
}

type result struct {
	ID     int     `json:"id"`
	Events [][]any `json:"events"`
	Panic  *string `json:"panic"`
	Hang   bool    `json:"hang"`
}

type (
	req = pledge.Request
	res = pledge.Response
)

// addrFwd / addrRev map node numbers to real listen addresses in the gRPC cases (one case at a
// time per process); empty for the mock network, where node a lives at "n<a>".
var (
	addrFwd = map[uint32]address.Address{}
	addrRev = map[address.Address]uint32{}
)

func addrOf(a uint32) address.Address {
	if x, ok := addrFwd[a]; ok {
		return x
	}
	return address.Address("n" + strconv.Itoa(int(a)))
}

func addrNum(a address.Address) uint32 {
	if x, ok := addrRev[a]; ok {
		return x
	}
	s := string(a)
	if len(s) < 2 {
		return 0
	}
	n, _ := strconv.Atoi(s[1:])
	return uint32(n)
}

func ckUUID(ck uint32) uuid.UUID {
	var u uuid.UUID
	binary.BigEndian.PutUint32(u[12:], ck)
	return u
}

func ckNum(u uuid.UUID) uint32 { return binary.BigEndian.Uint32(u[12:]) }

func goid() int64 {
	var buf [64]byte
	n := runtime.Stack(buf[:], false)
	// "goroutine 123 [running]:..."
	s := buf[10:n]
	var id int64
	for _, c := range s {
		if c < '0' || c > '9' {
			break
		}
		id = id*10 + int64(c-'0')
	}
	return id
}

type runKey struct{}

type rvResult struct {
	run, j, key  uint32
	how, verdict int
}

type lateMsg struct {
	run, j, key uint32
}

type harness struct {
	mu sync.Mutex // linearises views, the event log and juror deliveries
	// vmu additionally guards views for the one reader that must not take mu: a juror's
	// Candidates() call made from a rendezvous delivery (see sendProposal, decision V).
	vmu        sync.RWMutex
	rvjuror    map[int64]uint32         // goroutine -> juror it is delivering a V request to
	rvCh       map[uint32]chan struct{} // per juror: the two-party meeting point inside Candidates()
	rvInflight map[uint32]int           // per juror: V deliveries not yet returned
	rvDone     map[uint32][]rvResult    // per juror: V deliveries returned, not yet logged
	rvGen      map[uint32]int
	rvCond     *sync.Cond
	rvWait     time.Duration
	gmu        sync.Mutex // goroutine registry + jitter source
	gorun      map[int64]uint32
	injuror    map[int64]bool
	views      map[uint32][]viewEnt
	arb        map[uint32]bool
	events     [][]any
	nextRun    uint32
	runRound   map[uint32]int
	runSpec    map[uint32][]roundSpec
	pending    []lateMsg
	net        *mock.Network[req, res]
	inner      pledge.TransportClient
	grpc       *grpcNet // nil: mock network
	syncs      map[[2]uint32]*syncBar
	used       map[uint32]bool
	assigned   map[uint32]uint32
	rt         time.Duration
	jit        *rand.Rand
	panicked   *string
	wg         sync.WaitGroup
}

var (
	errUnreach = errors.New("verif: juror unreachable")
	errLost    = errors.New("verif: response lost")
)

func (h *harness) logf(xs ...any) { h.events = append(h.events, xs) }

func group(v []viewEnt) node.Group {
	g := node.Group{}
	for _, e := range v {
		g[node.Key(e[0])] = node.Node{Key: node.Key(e[0]), State: node.State(e[1]), Address: addrOf(e[2])}
	}
	return g
}

func dumpGroup(g node.Group) [][]uint32 {
	out := make([][]uint32, 0, len(g))
	for k, n := range g {
		out = append(out, []uint32{uint32(k), uint32(n.State), addrNum(n.Address)})
	}
	sort.Slice(out, func(a, b int) bool { return out[a][0] < out[b][0] })
	return out
}

// setView installs a scripted view. An entry with key 0 stands for "the node at this
// address, under the key it was handed" and is dropped while that node has no key.
func (h *harness) setView(a uint32, v []viewEnt) {
	rv := make([]viewEnt, 0, len(v))
	for _, e := range v {
		if e[0] == 0 {
			k, ok := h.assigned[e[2]]
			if !ok {
				continue
			}
			e[0] = k
		}
		rv = append(rv, e)
	}
	h.vmu.Lock()
	h.views[a] = rv
	h.vmu.Unlock()
	h.logf("G", a, dumpGroup(group(rv)))
}

// candidates builds the Candidates closure of node a.
func (h *harness) candidates(a uint32) func() node.Group {
	return func() node.Group {
		g := goid()
		h.gmu.Lock()
		inj := h.injuror[g]
		run, isRun := h.gorun[g]
		rvj, isRv := h.rvjuror[g]
		var ch chan struct{}
		if isRv && rvj == a {
			ch = h.rvCh[a]
			if ch == nil {
				ch = make(chan struct{})
				h.rvCh[a] = ch
			}
		}
		h.gmu.Unlock()
		if ch != nil {
			// A proposal scripted to meet another one INSIDE this juror: wait here, between the
			// juror's "already approved" lookup and its append, until a second proposal is at the
			// same point or the wait expires (a juror whose verdict is atomic never lets the second
			// one in, so there the first simply proceeds after the wait).
			select {
			case ch <- struct{}{}:
			case <-ch:
			case <-time.After(h.rvWait):
			}
			h.vmu.RLock()
			gr := group(h.views[a])
			h.vmu.RUnlock()
			return gr
		}
		if inj {
			// called by juror.verdict while the delivering goroutine holds h.mu
			return group(h.views[a])
		}
		h.mu.Lock()
		defer h.mu.Unlock()
		if isRun {
			idx := h.runRound[run]
			if sp := h.runSpec[run]; idx < len(sp) {
				if sp[idx].Flush {
					h.flush()
				}
				for _, gp := range sp[idx].Gossip {
					h.setView(gp.M, gp.View)
				}
			}
			h.runRound[run] = idx + 1
			gr := group(h.views[a])
			h.logf("SN", run, dumpGroup(gr))
			return gr
		}
		return group(h.views[a])
	}
}

func verdictClass(err error) int {
	switch {
	case err == nil:
		return 0
	case errors.Is(err, pledge.VerifErrProposalRejected):
		return 1
	case errors.Is(err, context.Canceled), errors.Is(err, context.DeadlineExceeded):
		return 2
	}
	return 3
}

func errClass(err error) int {
	switch {
	case err == nil:
		return 0
	case errors.Is(err, pledge.VerifErrQuorumUnreachable):
		return 2
	case errors.Is(err, pledge.VerifErrProposalRejected):
		return 1
	case errors.Is(err, context.Canceled), errors.Is(err, context.DeadlineExceeded):
		return 3
	}
	return 4
}

// deliver hands a juror request to the real handler. Precondition: h.mu held. It returns what
// the transport returned, the juror's own verdict class and whether the juror processed the
// request at all. On the mock network the handler runs in this goroutine and its return value
// is the verdict; over gRPC the verdict is what the juror's server-side handler recorded.
func (h *harness) deliver(ctx context.Context, target address.Address, rq req) (error, int, bool) {
	if h.grpc != nil {
		j := addrNum(target)
		h.gmu.Lock()
		delete(h.grpc.verdict, j)
		h.gmu.Unlock()
		_, err := h.inner.Send(ctx, target, rq)
		h.gmu.Lock()
		v, ok := h.grpc.verdict[j]
		h.gmu.Unlock()
		if !ok {
			return err, 3, false
		}
		return err, v, true
	}
	g := goid()
	h.gmu.Lock()
	h.injuror[g] = true
	h.gmu.Unlock()
	_, err := h.inner.Send(ctx, target, rq)
	h.gmu.Lock()
	delete(h.injuror, g)
	h.gmu.Unlock()
	return err, verdictClass(err), true
}

// flush delivers the queued late juror requests. Precondition: h.mu held.
func (h *harness) flush() {
	p := h.pending
	h.pending = nil
	for _, m := range p {
		if !h.arb[m.j] {
			h.logf("LT", m.run, m.j, m.key, 3)
			continue
		}
		_, vd, _ := h.deliver(context.Background(), addrOf(m.j), req{Key: node.Key(m.key)})
		h.logf("LT", m.run, m.j, m.key, vd)
	}
}

type pledgeState struct {
	spec   pledgeSpec
	idx    int
	cancel context.CancelFunc
}

// client wraps the mock network's unary client of one node.
type client struct {
	pledge.TransportClient
	h    *harness
	self uint32
	ps   *pledgeState
}

func (c *client) Send(ctx context.Context, target address.Address, rq req) (res, error) {
	if rq.Key == 0 {
		return c.sendPledge(ctx, target, rq)
	}
	return c.sendProposal(ctx, target, rq)
}

func (c *client) sendPledge(ctx context.Context, target address.Address, rq req) (res, error) {
	h, ps := c.h, c.ps
	if ps == nil {
		return res{}, errUnreach
	}
	i := ps.idx
	ps.idx++
	if i >= len(ps.spec.Attempts) {
		ps.cancel()
		return res{}, errUnreach
	}
	at := ps.spec.Attempts[i]
	last := i == len(ps.spec.Attempts)-1
	tgt := addrNum(target)
	h.mu.Lock()
	if at.How == "F" || !h.arb[tgt] {
		h.logf("PF", c.self, tgt)
		h.mu.Unlock()
		if last {
			ps.cancel()
		}
		return res{}, errUnreach
	}
	r := h.nextRun
	h.nextRun++
	h.runSpec[r] = at.Rounds
	h.logf("PS", c.self, tgt, r)
	h.mu.Unlock()
	g := goid()
	h.gmu.Lock()
	h.gorun[g] = r
	h.gmu.Unlock()
	if h.grpc != nil {
		// the run id travels to the coordinator's server in the otherwise unused ClusterKey
		rq.ClusterKey = ckUUID(r)
	}
	rs, err := c.TransportClient.Send(context.WithValue(ctx, runKey{}, r), target, rq)
	h.gmu.Lock()
	delete(h.gorun, g)
	h.gmu.Unlock()
	lost := at.How == "R"
	h.mu.Lock()
	if h.grpc != nil {
		// what propose returned on the coordinator is the ground truth; the response is lost if
		// it did not reach the pledge as it was sent
		h.gmu.Lock()
		sr, ok := h.grpc.runEnd[r]
		h.gmu.Unlock()
		if ok {
			lost = lost || (sr.err == 0) != (err == nil)
			h.logf("RE", r, sr.key, sr.ck, sr.err, lost)
		}
	} else {
		h.logf("RE", r, uint32(rs.Key), ckNum(rs.ClusterKey), errClass(err), lost)
	}
	h.mu.Unlock()
	if lost {
		err = errLost
	}
	if err != nil && last {
		ps.cancel()
	}
	return rs, err
}

type syncBar struct {
	arrived, done int
	closed        bool
	ch            chan struct{}
	spin          atomic.Int32
}

func (c *client) sendProposal(ctx context.Context, target address.Address, rq req) (res, error) {
	h := c.h
	var sb *syncBar
	if r, ok := ctx.Value(runKey{}).(uint32); ok {
		h.mu.Lock()
		if idx := h.runRound[r] - 1; idx >= 0 && idx < len(h.runSpec[r]) && h.runSpec[r][idx].Sync {
			k := [2]uint32{r, uint32(idx)}
			if sb = h.syncs[k]; sb == nil {
				sb = &syncBar{ch: make(chan struct{})}
				h.syncs[k] = sb
			}
			sb.arrived++
		}
		h.mu.Unlock()
	}
	rs, err := c.sendProposal1(ctx, target, rq)
	if sb != nil {
		h.mu.Lock()
		sb.done++
		n := int32(sb.arrived)
		if sb.done == sb.arrived && !sb.closed {
			sb.closed = true
			close(sb.ch)
		}
		h.mu.Unlock()
		select {
		case <-sb.ch:
		case <-time.After(3 * time.Millisecond):
		}
		// line the goroutines up to within nanoseconds: waking from the channel alone leaves
		// microseconds between them
		sb.spin.Add(1)
		for t0 := time.Now(); sb.spin.Load() < n && time.Since(t0) < 300*time.Microsecond; {
		}
	}
	return rs, err
}

func (c *client) sendProposal1(ctx context.Context, target address.Address, rq req) (res, error) {
	h := c.h
	r, ok := ctx.Value(runKey{}).(uint32)
	if !ok {
		return res{}, errUnreach
	}
	j := addrNum(target)
	key := uint32(rq.Key)
	h.mu.Lock()
	d := "D"
	if idx := h.runRound[r] - 1; idx >= 0 && idx < len(h.runSpec[r]) {
		sp := h.runSpec[r][idx]
		if sp.Def != "" {
			d = sp.Def
		}
		if x, has := sp.By[strconv.Itoa(int(j))]; has {
			d = x
		}
	}
	h.mu.Unlock()
	if h.jit != nil {
		h.gmu.Lock()
		n := h.jit.Intn(4)
		us := h.jit.Intn(60)
		h.gmu.Unlock()
		if n == 0 {
			time.Sleep(time.Duration(us) * time.Microsecond)
		} else if n == 1 {
			runtime.Gosched()
		}
	}
	switch d {
	case "F":
		h.mu.Lock()
		h.logf("RQ", r, j, key, 1, 3)
		h.mu.Unlock()
		return res{}, errUnreach
	case "T":
		select {
		case <-ctx.Done():
		case <-time.After(2 * h.rt):
		}
		h.mu.Lock()
		h.logf("RQ", r, j, key, 1, 3)
		h.mu.Unlock()
		if err := ctx.Err(); err != nil {
			return res{}, err
		}
		return res{}, errUnreach
	case "L":
		h.mu.Lock()
		h.pending = append(h.pending, lateMsg{r, j, key})
		h.logf("RQ", r, j, key, 4, 3)
		h.mu.Unlock()
		return res{}, errUnreach
	case "C":
		cctx, cancel := context.WithCancel(ctx)
		cancel()
		h.mu.Lock()
		if !h.arb[j] {
			h.logf("RQ", r, j, key, 1, 3)
			h.mu.Unlock()
			return res{}, errUnreach
		}
		err, vd, _ := h.deliver(cctx, target, rq)
		h.logf("RQ", r, j, key, 3, vd)
		h.mu.Unlock()
		if err == nil {
			err = errUnreach
		}
		return res{}, err
	}
	if d == "V" {
		return c.sendRendezvous(ctx, target, rq, r, j, key, 0)
	}
	// D and R: the juror processes the request before any cancellation reaches it
	h.mu.Lock()
	if h.rvInflight[j] > 0 {
		// proposals are being held inside this juror: join them, so that the log keeps the
		// juror's own order of verdicts
		h.mu.Unlock()
		how := 0
		if d == "R" {
			how = 2
		}
		return c.sendRendezvous(ctx, target, rq, r, j, key, how)
	}
	if !h.arb[j] {
		h.logf("RQ", r, j, key, 1, 3)
		h.mu.Unlock()
		return res{}, address.NewTargetNotFoundError(target)
	}
	if (d == "S" || d == "X") && h.grpc != nil {
		// the juror's gRPC server answers this request itself, with a DEADLINE_EXCEEDED (S) or
		// CANCELED (X) status, while the coordinator's own request context is still alive
		h.gmu.Lock()
		h.grpc.shed[j] = d
		h.gmu.Unlock()
	}
	err, vd, delivered := h.deliver(context.WithoutCancel(ctx), target, rq)
	if !delivered {
		h.logf("RQ", r, j, key, 1, 3)
		h.mu.Unlock()
		return res{}, err
	}
	if d == "R" {
		h.logf("RQ", r, j, key, 2, vd)
		h.mu.Unlock()
		return res{}, errLost
	}
	h.logf("RQ", r, j, key, 0, vd)
	h.mu.Unlock()
	return res{}, err
}

// sendRendezvous delivers a proposal WITHOUT holding h.mu, so that two proposals can be inside
// the same juror at once; the juror's Candidates() closure holds each of them at the meeting
// point. The verdicts of the proposals that were inside juror j together are logged as one
// block once all of them have returned, approvals first: with an atomic verdict that is the
// juror's own order (whoever approved a key did so before the other was refused it).
func (c *client) sendRendezvous(ctx context.Context, target address.Address, rq req, r, j, key uint32, how int) (res, error) {
	h := c.h
	h.mu.Lock()
	if !h.arb[j] {
		h.logf("RQ", r, j, key, 1, 3)
		h.mu.Unlock()
		return res{}, address.NewTargetNotFoundError(target)
	}
	h.rvInflight[j]++
	h.mu.Unlock()
	g := goid()
	h.gmu.Lock()
	h.rvjuror[g] = j
	h.gmu.Unlock()
	_, err := h.inner.Send(context.WithoutCancel(ctx), target, rq)
	h.gmu.Lock()
	delete(h.rvjuror, g)
	h.gmu.Unlock()
	h.mu.Lock()
	h.rvDone[j] = append(h.rvDone[j], rvResult{r, j, key, how, verdictClass(err)})
	h.rvInflight[j]--
	if h.rvInflight[j] == 0 {
		done := h.rvDone[j]
		h.rvDone[j] = nil
		sort.SliceStable(done, func(a, b int) bool { return done[a].verdict == 0 && done[b].verdict != 0 })
		for _, d := range done {
			h.logf("RQ", d.run, d.j, d.key, d.how, d.verdict)
		}
		h.rvGen[j]++
		h.rvCond.Broadcast()
	} else {
		gen := h.rvGen[j]
		for h.rvGen[j] == gen {
			h.rvCond.Wait()
		}
	}
	h.mu.Unlock()
	if how == 2 {
		return res{}, errLost
	}
	return res{}, err
}

func (h *harness) newServer(a uint32) pledge.TransportServer {
	if h.grpc != nil {
		return h.grpc.server(a)
	}
	return h.net.UnaryServer(addrOf(a))
}

func (h *harness) runPledge(spec pledgeSpec) {
	defer h.wg.Done()
	defer func() {
		if r := recover(); r != nil {
			s := fmt.Sprint(r)
			h.mu.Lock()
			h.panicked = &s
			h.mu.Unlock()
		}
	}()
	p := spec.P
	h.mu.Lock()
	if h.used[p] {
		h.mu.Unlock()
		return
	}
	h.used[p] = true
	h.mu.Unlock()
	server := h.newServer(p)
	ctx, cancel := context.WithCancel(context.Background())
	defer cancel()
	cl := &client{TransportClient: h.inner, h: h, self: p, ps: &pledgeState{spec: spec, cancel: cancel}}
	var peers []address.Address
	for _, a := range spec.Attempts {
		peers = append(peers, addrOf(a.Via))
	}
	if len(peers) == 0 {
		h.mu.Lock()
		h.logf("PE", p, false, 0, 0)
		h.mu.Unlock()
		return
	}
	// MaxProposals 0 is passed through: the package's DefaultConfig then decides
	max := spec.Max
	rs, err := pledge.Pledge(ctx, pledge.Config{
		TransportClient: cl,
		TransportServer: server,
		Candidates:      h.candidates(p),
		Peers:           peers,
		RequestTimeout:  10 * time.Second,
		RetryInterval:   2 * time.Microsecond,
		RetryScale:      1,
		MaxProposals:    max,
	})
	h.mu.Lock()
	if err == nil {
		h.arb[p] = true
		h.assigned[p] = uint32(rs.Key)
		h.logf("PE", p, true, uint32(rs.Key), ckNum(rs.ClusterKey))
	} else {
		h.logf("PE", p, false, 0, 0)
	}
	h.mu.Unlock()
}

func runCase(c tcase) (out result) {
	if c.Kind == "cluster" {
		return runCluster(c)
	}
	out.ID = c.ID
	h := &harness{
		gorun: map[int64]uint32{}, injuror: map[int64]bool{}, views: map[uint32][]viewEnt{},
		arb: map[uint32]bool{}, runRound: map[uint32]int{}, runSpec: map[uint32][]roundSpec{},
		used: map[uint32]bool{}, assigned: map[uint32]uint32{}, nextRun: 1,
		rvjuror: map[int64]uint32{}, rvCh: map[uint32]chan struct{}{}, rvInflight: map[uint32]int{},
		rvDone: map[uint32][]rvResult{}, rvGen: map[uint32]int{}, syncs: map[[2]uint32]*syncBar{},
	}
	h.rvCond = sync.NewCond(&h.mu)
	h.rvWait = time.Duration(c.RvMs) * time.Millisecond
	if h.rvWait <= 0 {
		h.rvWait = 40 * time.Millisecond
	}
	addrFwd, addrRev = map[uint32]address.Address{}, map[address.Address]uint32{}
	if c.Kind == "grpc" {
		g, err := newGrpcNet(h, c.Members)
		if err != nil {
			s := "grpc set-up: " + err.Error()
			out.Panic = &s
			out.Events = [][]any{}
			return out
		}
		defer g.close()
		h.grpc = g
		h.inner = g.client
	} else {
		h.net = mock.NewNetwork[req, res]()
		h.inner = h.net.UnaryClient()
	}
	h.rt = time.Duration(c.RtUs) * time.Microsecond
	if h.rt <= 0 {
		h.rt = 3 * time.Millisecond
	}
	if c.Jitter != 0 {
		h.jit = rand.New(rand.NewSource(c.Jitter))
	}
	done := make(chan struct{})
	go func() {
		defer close(done)
		defer func() {
			if r := recover(); r != nil {
				s := fmt.Sprint(r)
				h.mu.Lock()
				h.panicked = &s
				h.mu.Unlock()
			}
		}()
		for _, m := range c.Members {
			if h.used[m.Addr] {
				continue
			}
			h.used[m.Addr] = true
			server := h.newServer(m.Addr)
			max := m.Max // 0: DefaultConfig.MaxProposals applies
			h.vmu.Lock()
			h.views[m.Addr] = m.View
			h.vmu.Unlock()
			if err := pledge.Arbitrate(pledge.Config{
				TransportClient: &client{TransportClient: h.inner, h: h, self: m.Addr},
				TransportServer: server,
				Candidates:      h.candidates(m.Addr),
				RequestTimeout:  h.rt,
				MaxProposals:    max,
				ClusterKey:      ckUUID(m.CK),
			}); err != nil {
				panic(err)
			}
			h.arb[m.Addr] = true
		}
		for _, o := range c.Ops {
			switch o.Op {
			case "par":
				for _, ps := range o.Pledges {
					h.wg.Add(1)
					go h.runPledge(ps)
				}
				h.wg.Wait()
			case "gossip":
				h.mu.Lock()
				h.setView(o.M, o.View)
				h.mu.Unlock()
			case "flush":
				h.mu.Lock()
				h.flush()
				h.mu.Unlock()
			case "probe":
				h.mu.Lock()
				if o.Key == 0 {
					// a zero key is a pledge request, not a proposal: never probed
				} else if h.arb[o.M] {
					_, vd, _ := h.deliver(context.Background(), addrOf(o.M), req{Key: node.Key(o.Key)})
					h.logf("PB", o.M, o.Key, vd)
				} else {
					h.logf("PB", o.M, o.Key, 3)
				}
				h.mu.Unlock()
			}
		}
	}()
	select {
	case <-done:
	case <-time.After(30 * time.Second):
		out.Hang = true
	}
	h.mu.Lock()
	out.Events = append([][]any{}, h.events...)
	out.Panic = h.panicked
	h.mu.Unlock()
	if out.Events == nil {
		out.Events = [][]any{}
	}
	return out
}

func main() {
	in := bufio.NewScanner(os.Stdin)
	in.Buffer(make([]byte, 1<<20), 1<<26)
	w := bufio.NewWriter(os.Stdout)
	defer w.Flush()
	for in.Scan() {
		var c tcase
		if err := json.Unmarshal(in.Bytes(), &c); err != nil {
			fmt.Fprintln(os.Stderr, "bad case:", err)
			os.Exit(2)
		}
		b, _ := json.Marshal(runCase(c))
		w.Write(b)
		w.WriteByte('\n')
	}
}
