//go:build verif

package main

import (
	"context"
	"fmt"
	"runtime/debug"
	"time"

	"github.com/google/uuid"
	"github.com/synnaxlabs/aspen/internal/cluster"
	"github.com/synnaxlabs/aspen/internal/cluster/gossip"
	"github.com/synnaxlabs/aspen/internal/cluster/pledge"
	"github.com/synnaxlabs/freighter/mock"
	"github.com/synnaxlabs/x/address"
	xkv "github.com/synnaxlabs/x/kv"
	"github.com/synnaxlabs/x/kv/memkv"
)

// Cluster-level scripts: the real cluster.Open (bootstrap / pledge / restart-from-storage
// branches) over memkv stores and the mock networks.
//
//	start i      bootstrap a new cluster on node i (only while no node exists)
//	join i m     node i (new) opens with Peers = [m]           (every existing node must be open)
//	close i      Cluster.Close; its servers stop answering
//
// Gossip runs in the background (2 ms); before every op the harness waits until every open
// node knows every node.
//
//	reopen i     cluster.Open again on node i's store
//
// An op that does not apply is skipped (ok = false). For every op the result records
// whether a cluster was opened, the host's node key and the cluster key it holds, the
// latter canonicalised by first appearance (uuid.Nil = 0).
type cnode struct {
	db   xkv.DB
	cl   *cluster.Cluster
	open bool
}

type cobs struct {
	OK  bool   `json:"ok"`
	Key uint32 `json:"key"`
	CK  uint32 `json:"ck"`
}

var errDown = fmt.Errorf("verif: node is down")

func runCluster(c tcase) (out result) {
	out.ID = c.ID
	out.Events = [][]any{}
	defer func() {
		if r := recover(); r != nil {
			s := fmt.Sprint(r) + "\n" + string(debug.Stack())
			out.Panic = &s
		}
	}()
	gossipNet := mock.NewNetwork[gossip.Message, gossip.Message]()
	pledgeNet := mock.NewNetwork[pledge.Request, pledge.Response]()
	storageKey := []byte("verif-c11-cluster-state")
	nodes := map[uint32]*cnode{}
	cks := map[uuid.UUID]uint32{uuid.Nil: 0}
	canon := func(u uuid.UUID) uint32 {
		if v, ok := cks[u]; ok {
			return v
		}
		v := uint32(len(cks))
		cks[u] = v
		return v
	}
	servers := map[uint32][2]any{}
	open := func(i uint32, n *cnode, peers []address.Address, timeout time.Duration) (ob cobs, err error) {
		ctx, cancel := context.WithTimeout(context.Background(), timeout)
		defer cancel()
		// cluster.Open panics (nil *Cluster in its deferred shutdown) when the pledge fails, e.g. on
		// a context deadline while no quorum is reachable; that is a failed join here.
		defer func() {
			if r := recover(); r != nil {
				ob, err = cobs{}, fmt.Errorf("cluster.Open panicked: %v", r)
			}
		}()
		addr := addrOf(i)
		ps := pledgeNet.UnaryServer(addr)
		gs := gossipNet.UnaryServer(addr)
		servers[i] = [2]any{ps, gs}
		cl, err := cluster.Open(ctx, cluster.Config{
			HostAddress: addr,
			Pledge: pledge.Config{
				Peers:           peers,
				TransportClient: pledgeNet.UnaryClient(),
				TransportServer: ps,
				RequestTimeout:  100 * time.Millisecond,
				RetryInterval:   200 * time.Microsecond,
				RetryScale:      1,
			},
			Gossip: gossip.Config{
				TransportClient: gossipNet.UnaryClient(),
				TransportServer: gs,
				Interval:        2 * time.Millisecond,
			},
			Storage:              n.db,
			StorageKey:           storageKey,
			StorageFlushInterval: cluster.FlushOnEvery,
		})
		if err != nil {
			if cl != nil {
				_ = cl.Close()
			}
			return cobs{}, err
		}
		n.cl, n.open = cl, true
		return cobs{OK: true, Key: uint32(cl.HostKey()), CK: canon(cl.Key())}, nil
	}
	down := func(i uint32) {
		if s, ok := servers[i]; ok {
			s[0].(*mock.UnaryServer[pledge.Request, pledge.Response]).BindHandler(
				func(context.Context, pledge.Request) (pledge.Response, error) { return pledge.Response{}, errDown })
			s[1].(*mock.UnaryServer[gossip.Message, gossip.Message]).BindHandler(
				func(context.Context, gossip.Message) (gossip.Message, error) { return gossip.Message{}, errDown })
		}
	}
	defer func() {
		for _, n := range nodes {
			if n.open {
				_ = n.cl.Close()
			}
		}
	}()
	// settle waits until background gossip has told every open node about every node, so that the
	// next join is coordinated on a complete view (stale views are the pledge-level scripts' subject).
	settle := func() bool {
		deadline := time.Now().Add(5 * time.Second)
		for {
			ok := true
			for _, n := range nodes {
				if n.open && len(n.cl.Nodes()) < len(nodes) {
					ok = false
				}
			}
			if ok {
				return true
			}
			if time.Now().After(deadline) {
				return false
			}
			time.Sleep(500 * time.Microsecond)
		}
	}
	var obs []cobs
	for _, o := range c.Ops {
		if !settle() {
			out.Hang = true
			return out
		}
		var ob cobs
		switch o.Op {
		case "start":
			if len(nodes) == 0 {
				n := &cnode{db: memkv.New()}
				if r, err := open(o.M, n, []address.Address{}, 5*time.Second); err == nil {
					nodes[o.M] = n
					ob = r
				} else {
					panic(err)
				}
			}
		case "join":
			_, ok := nodes[o.Key]
			allOpen := true
			for _, n := range nodes {
				allOpen = allOpen && n.open
			}
			// a join while some member is down can exhaust a coordinator's proposals and leave its
			// juror remembering thousands of keys; such scripts say nothing about uniqueness
			if _, exists := nodes[o.M]; !exists && ok && allOpen {
				n := &cnode{db: memkv.New()}
				if r, err := open(o.M, n, []address.Address{addrOf(o.Key)}, 1500*time.Millisecond); err == nil {
					nodes[o.M] = n
					ob = r
				} else {
					down(o.M)
				}
			}
		case "close":
			if n, ok := nodes[o.M]; ok && n.open {
				_ = n.cl.Close()
				n.open = false
				down(o.M)
			}
		case "reopen":
			if n, ok := nodes[o.M]; ok && !n.open {
				if r, err := open(o.M, n, []address.Address{}, 5*time.Second); err == nil {
					ob = r
				} else {
					panic(err)
				}
			}
		}
		obs = append(obs, ob)
	}
	for _, ob := range obs {
		out.Events = append(out.Events, []any{"CO", ob.OK, ob.Key, ob.CK})
	}
	return out
}
