//go:build verif

package main

import (
	"context"
	"net"

	"github.com/synnaxlabs/alamos"
	"github.com/synnaxlabs/aspen/internal/cluster/pledge"
	grpct "github.com/synnaxlabs/aspen/transport/grpc"
	fgrpc "github.com/synnaxlabs/freighter/grpc"
	"github.com/synnaxlabs/x/address"
	"google.golang.org/grpc"
	"google.golang.org/grpc/codes"
	"google.golang.org/grpc/credentials/insecure"
	"google.golang.org/grpc/status"
)

// Real-transport cases ("kind":"grpc"): the members talk over aspen/transport/grpc
// (freighter/go/grpc) on ephemeral loopback ports. Everything else is the pledge-level
// script machinery of main.go: the same wrapping client, the same event log. What differs:
//
//   - the juror's verdict is recorded where it is produced, by a wrapper around the handler
//     the pledge package binds to the juror's server (the transport's return value at the
//     coordinator is NOT taken for the verdict), and likewise the result of propose;
//   - decisions S / X make the juror's gRPC server answer a proposal itself with a
//     DEADLINE_EXCEEDED / CANCELED status (a server-side deadline or load shedding) before
//     it reaches the juror, while the coordinator's request context is still alive;
//   - the run id of a pledge request travels in the request's otherwise unused ClusterKey.
//
// Deliveries are made one at a time under h.mu, so "the request in flight at juror j" is
// unambiguous.
type runEnd struct {
	key, ck uint32
	err     int
}

type grpcNet struct {
	h       *harness
	pool    *fgrpc.Pool
	client  pledge.TransportClient
	servers []*grpc.Server
	tr      map[uint32]*grpct.Transport
	verdict map[uint32]int    // juror -> verdict class of the proposal just processed (guarded by h.gmu)
	shed    map[uint32]string // juror -> status its server answers the next request with (h.gmu)
	runEnd  map[uint32]runEnd // run -> what propose returned (h.gmu)
}

func newGrpcNet(h *harness, members []memberInit) (*grpcNet, error) {
	g := &grpcNet{
		h: h, tr: map[uint32]*grpct.Transport{}, verdict: map[uint32]int{}, shed: map[uint32]string{},
		runEnd: map[uint32]runEnd{},
	}
	g.pool = fgrpc.NewPool("", grpc.WithTransportCredentials(insecure.NewCredentials()))
	g.client = grpct.New(g.pool).PledgeClient()
	for _, m := range members {
		if _, dup := g.tr[m.Addr]; dup {
			continue
		}
		lis, err := net.Listen("tcp", "127.0.0.1:0")
		if err != nil {
			g.close()
			return nil, err
		}
		addr := address.Address(lis.Addr().String())
		tr := grpct.New(g.pool)
		// external = true: this harness owns the grpc server the services are mounted on
		if err := tr.Configure(addr, alamos.Instrumentation{}, true); err != nil {
			_ = lis.Close()
			g.close()
			return nil, err
		}
		j := m.Addr
		srv := grpc.NewServer(grpc.ChainUnaryInterceptor(func(
			ctx context.Context, rq any, _ *grpc.UnaryServerInfo, handler grpc.UnaryHandler,
		) (any, error) {
			h.gmu.Lock()
			d := g.shed[j]
			delete(g.shed, j)
			h.gmu.Unlock()
			switch d {
			case "S":
				return nil, status.Error(codes.DeadlineExceeded, "verif: server-side deadline exceeded")
			case "X":
				return nil, status.Error(codes.Canceled, "verif: request shed by the server")
			}
			return handler(ctx, rq)
		}))
		tr.BindTo(srv)
		go func() { _ = srv.Serve(lis) }()
		g.servers = append(g.servers, srv)
		g.tr[j] = tr
		addrFwd[j] = addr
		addrRev[addr] = j
	}
	return g, nil
}

func (g *grpcNet) close() {
	for _, s := range g.servers {
		s.Stop()
	}
	if g.pool != nil {
		_ = g.pool.Close()
	}
}

// server returns the pledge server of node a: a member's is mounted on its grpc server, a
// pledging node's is not served at all (nothing is ever sent to it in these cases).
func (g *grpcNet) server(a uint32) pledge.TransportServer {
	tr, ok := g.tr[a]
	if !ok {
		tr = grpct.New(g.pool)
	}
	return &grpcServer{TransportServer: tr.PledgeServer(), g: g, self: a}
}

type grpcServer struct {
	pledge.TransportServer
	g    *grpcNet
	self uint32
}

func (s *grpcServer) BindHandler(hd func(context.Context, req) (res, error)) {
	h := s.g.h
	s.TransportServer.BindHandler(func(ctx context.Context, rq req) (res, error) {
		gid := goid()
		if rq.Key == 0 {
			run := ckNum(rq.ClusterKey)
			rq.ClusterKey = ckUUID(0)
			h.gmu.Lock()
			h.gorun[gid] = run
			h.gmu.Unlock()
			rs, err := hd(context.WithValue(ctx, runKey{}, run), rq)
			h.gmu.Lock()
			delete(h.gorun, gid)
			s.g.runEnd[run] = runEnd{uint32(rs.Key), ckNum(rs.ClusterKey), errClass(err)}
			h.gmu.Unlock()
			return rs, err
		}
		// a proposal: the delivering goroutine holds h.mu while it waits for this answer
		h.gmu.Lock()
		h.injuror[gid] = true
		h.gmu.Unlock()
		rs, err := hd(ctx, rq)
		h.gmu.Lock()
		delete(h.injuror, gid)
		s.g.verdict[s.self] = verdictClass(err)
		h.gmu.Unlock()
		return rs, err
	})
}
