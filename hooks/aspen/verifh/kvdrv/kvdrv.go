//go:build verif

// Package kvdrv drives real aspen kv.DB nodes (kv.Open pipelines over in-memory engines and the
// freighter mock networks) step by step for the C06 / C13 correspondence harnesses.
//
// Nothing is timer driven: the gossip interval is one hour, gossip payloads are taken from the
// real operation server's reply (the node's infected operations) and delivered by the harness,
// feedback messages are captured by the harness-owned feedback client and delivered on request,
// start-up recovery is run through kv.VerifRunSingleNodeRecovery behind a gate so that the
// high-water read and the apply can be separated.
//
// Quiescence between steps is established by marker messages that travel FIFO behind the real
// traffic through the real pipeline (never by sleeping):
//   L  an empty lease-forwarded TxRequest  (executor -> versionAssigner -> persist -> splitter)
//   M  a gossip batch {~m accepted (fresh version), ~r rejected (strictly older than the seeded one)} (filterPersist -> splitter -> store/observers,
//      filterPersist -> feedbackSender)
//   F  T+2 feedback messages for ~m (feedbackReceiver -> recoveryTransform -> storeSink)
// Marker keys start with '~', carry negative versions (never reach a high-water mark) and are
// filtered from every dump, payload and subscriber log.
package kvdrv

import (
	"bytes"
	"context"
	"encoding/binary"
	"fmt"
	"go/types"
	"slices"
	"sort"
	"strconv"
	"sync"
	"sync/atomic"
	"time"

	"github.com/synnaxlabs/aspen/internal/cluster"
	"github.com/synnaxlabs/aspen/internal/cluster/store"
	"github.com/synnaxlabs/aspen/internal/kv"
	"github.com/synnaxlabs/aspen/internal/node"
	"github.com/synnaxlabs/freighter"
	"github.com/synnaxlabs/freighter/mock"
	"github.com/synnaxlabs/x/address"
	"github.com/synnaxlabs/x/change"
	"github.com/synnaxlabs/x/errors"
	xkv "github.com/synnaxlabs/x/kv"
	"github.com/synnaxlabs/x/kv/memkv"
	"github.com/synnaxlabs/x/query"
	"github.com/synnaxlabs/x/version"
)

const (
	markerSender   = node.Key(4000)
	markerVerBase  = int64(-1) << 40
	waitCap        = 8 * time.Second
	keyM           = "~m"
	keyR           = "~r"
	nullRecAddress = address.Address("null-recovery")
)

// ---- JSON shapes

type Item struct {
	K   uint32 `json:"k"`
	Ver int64  `json:"ver"`
	Lh  uint32 `json:"lh"`
	Del bool   `json:"del"`
	V   uint64 `json:"v"`
}

type Op struct {
	Op     string `json:"op"`
	N      uint32 `json:"n"`
	P      uint32 `json:"p"`
	I      uint32 `json:"i"`
	J      uint32 `json:"j"`
	K      uint32 `json:"k"`
	V      uint64 `json:"v"`
	Lease  uint32 `json:"lease"`
	Sender uint32 `json:"sender"`
	Late   bool   `json:"late"`
	M      int    `json:"m"`
	F      int    `json:"f"`
	S      int    `json:"s"`
	Filter bool   `json:"filter"`
	Count  int    `json:"count"`
	Cancel bool   `json:"cancel"`
	What    string `json:"what"`    // fail: "" = commit, "val" / "dig" = the Set of key K's value / digest
	CtrFail bool   `json:"ctrfail"` // write/del: the flush of the version counter fails at the leaseholder
	Batch  []Item `json:"batch"`
}

type Case struct {
	ID    int      `json:"id"`
	Nodes []uint32 `json:"nodes"`
	T     int      `json:"T"`
	Ops   []Op     `json:"ops"`
}

type NodeDump struct {
	N   uint32    `json:"n"`
	Ctr int64     `json:"ctr"`
	Eng [][]int64 `json:"eng"` // [k, hasval, val, hasdig, ver, lh, del]
	St  [][]int64 `json:"st"`  // infected ops of the gossip store [k, ver, lh, del, val]
}

type FbDump struct {
	Dest int64     `json:"dest"`
	From int64     `json:"from"`
	Done bool      `json:"done"`
	Digs [][]int64 `json:"digs"` // [k, ver, lh, del]
}

type SubDump struct {
	N uint32      `json:"n"`
	S int         `json:"s"`
	B [][][]int64 `json:"b"` // new batches since the previous step: [[k, del, val] ...]
}

type StepDump struct {
	Rc    int        `json:"rc"`
	Nodes []NodeDump `json:"nodes"`
	Fbs   []FbDump   `json:"fbs"`
	Subs  []SubDump  `json:"subs,omitempty"`
}

type Result struct {
	ID    int        `json:"id"`
	Outs  []StepDump `json:"outs"`
	Hang  string     `json:"hang,omitempty"`
	// Missed: a subscriber that keeps up was not handed a forwarded request while another one was stalled
	Missed []string `json:"missed,omitempty"`
	// Fired: injected commit failures that actually hit a transaction
	Fired int64 `json:"fired,omitempty"`
	Panic string     `json:"panic,omitempty"`
}

// ---- encoding of keys and values

func KeyBytes(k uint32) []byte { return []byte(fmt.Sprintf("k%05d", k)) }

func keyNum(b []byte) (int64, bool) {
	if len(b) < 2 || b[0] != 'k' {
		return 0, false
	}
	n, err := strconv.ParseInt(string(b[1:]), 10, 64)
	return n, err == nil
}

func valBytes(v uint64) []byte { return []byte(strconv.FormatUint(v, 10)) }

func valNum(b []byte) int64 {
	n, err := strconv.ParseInt(string(b), 10, 64)
	if err != nil {
		return -1
	}
	return n
}

func isMarker(key []byte) bool { return len(key) > 0 && key[0] == '~' }

func b2i(b bool) int64 {
	if b {
		return 1
	}
	return 0
}

// ---- storage faults

// faultyEngine wraps a node's engine: while armed, the commit of the next transaction that wrote a
// non-marker key fails once (the transaction is then rolled back by its owner's Close).
type faultyEngine struct {
	xkv.DB
	armed atomic.Bool
	fired atomic.Int64
	// onCommit, when set, is called once right after the next successful commit of a transaction
	// that wrote a user key (used to cancel the writing call's own context at that very moment)
	onCommit atomic.Pointer[func()]
	// failKey: the next write (Set/Delete) of exactly this key inside a transaction fails once
	failKey atomic.Pointer[[]byte]
	// failCtr: the next direct Set of the version-counter key fails once
	failCtr  atomic.Bool
	ctrFired atomic.Int64
}

const counterKey = "ver"

func (e *faultyEngine) Set(ctx context.Context, key, value []byte, opts ...any) error {
	if string(key) == counterKey && e.failCtr.CompareAndSwap(true, false) {
		e.ctrFired.Add(1)
		e.fired.Add(1)
		return errors.New("verif: injected counter flush failure")
	}
	return e.DB.Set(ctx, key, value, opts...)
}

func (t *faultyTx) keyFault(key []byte) error {
	if fk := t.eng.failKey.Load(); fk != nil && bytes.Equal(*fk, key) && t.eng.failKey.CompareAndSwap(fk, nil) {
		t.eng.fired.Add(1)
		return errors.New("verif: injected write failure")
	}
	return nil
}

func (e *faultyEngine) OpenTx() xkv.Tx { return &faultyTx{Tx: e.DB.OpenTx(), eng: e} }

type faultyTx struct {
	xkv.Tx
	eng     *faultyEngine
	touched bool
}

func userKey(key []byte) bool {
	return bytes.HasPrefix(key, []byte("k")) || bytes.Contains(key, []byte("--dig/k"))
}

func (t *faultyTx) Set(ctx context.Context, key, value []byte, opts ...any) error {
	if userKey(key) {
		t.touched = true
	}
	if err := t.keyFault(key); err != nil {
		return err
	}
	return t.Tx.Set(ctx, key, value, opts...)
}

func (t *faultyTx) Delete(ctx context.Context, key []byte, opts ...any) error {
	if userKey(key) {
		t.touched = true
	}
	if err := t.keyFault(key); err != nil {
		return err
	}
	return t.Tx.Delete(ctx, key, opts...)
}

func (t *faultyTx) Commit(ctx context.Context, opts ...any) error {
	if t.touched && t.eng.armed.CompareAndSwap(true, false) {
		t.eng.fired.Add(1)
		return errors.New("verif: injected commit failure")
	}
	err := t.Tx.Commit(ctx, opts...)
	if err == nil && t.touched {
		if f := t.eng.onCommit.Swap(nil); f != nil {
			(*f)()
		}
	}
	return err
}

// ---- subscribers

type sub struct {
	id         int
	filter     bool
	mu         sync.Mutex
	batches    [][][]int64
	lastMarker atomic.Int64
	empties    atomic.Int64
	disconnect func()
	stalled    atomic.Bool
	gate       chan struct{}
	gateOnce   sync.Once
	inCallback atomic.Bool
	discDone   chan struct{}
}

func (s *sub) openGate() { s.gateOnce.Do(func() { close(s.gate) }) }

func (s *sub) handle(_ context.Context, r xkv.TxReader) {
	if s.stalled.Load() {
		s.inCallback.Store(true)
		<-s.gate // a subscriber that does not keep up: its handler blocks until the node is closed
		return
	}
	var b [][]int64
	n := 0
	marker := int64(-1)
	for ch := range r {
		n++
		if isMarker(ch.Key) {
			if string(ch.Key) == keyM {
				marker = valNum(ch.Value)
			}
			continue
		}
		k, _ := keyNum(ch.Key)
		v := int64(0)
		if ch.Variant == change.VariantSet {
			v = valNum(ch.Value)
		}
		b = append(b, []int64{k, b2i(ch.Variant == change.VariantDelete), v})
	}
	if n == 0 {
		s.empties.Add(1)
		return
	}
	if len(b) > 0 {
		s.mu.Lock()
		s.batches = append(s.batches, b)
		s.mu.Unlock()
	}
	if marker >= 0 {
		s.lastMarker.Store(marker)
	}
}

func (s *sub) drain() [][][]int64 {
	s.mu.Lock()
	defer s.mu.Unlock()
	b := s.batches
	s.batches = nil
	return b
}

// ---- feedback capture

type fbEntry struct {
	dest, from uint32
	msg        kv.FeedbackMessage
	done       bool
}

type fbClient struct {
	*mock.UnaryClient[kv.FeedbackMessage, types.Nil]
	c *Cluster
	n *Node
}

func (f *fbClient) Send(_ context.Context, target address.Address, msg kv.FeedbackMessage) (types.Nil, error) {
	for _, d := range msg.Digests {
		if string(d.Key) == keyR {
			f.n.markerFb.Add(1)
			return types.Nil{}, nil
		}
	}
	f.c.mu.Lock()
	defer f.c.mu.Unlock()
	for _, nd := range f.c.nodes {
		if nd.addr == target {
			f.c.fbs = append(f.c.fbs, &fbEntry{dest: nd.key, from: f.n.key, msg: msg})
			return types.Nil{}, nil
		}
	}
	// unknown sender: the real transport fails, the feedback is lost
	return types.Nil{}, address.NewTargetNotFoundError(target)
}

// ---- gated recovery client

type recGate struct {
	arrived chan struct{}
	release chan struct{}
	done    chan error
	cancel  context.CancelFunc
}

type recClient struct {
	*mock.StreamClient[kv.RecoveryRequest, kv.RecoveryResponse]
	n *Node
}

func (r *recClient) Stream(ctx context.Context, target address.Address) (freighter.ClientStream[kv.RecoveryRequest, kv.RecoveryResponse], error) {
	if r.n.opening.Load() {
		return r.StreamClient.Stream(ctx, nullRecAddress)
	}
	r.n.mu.Lock()
	g := r.n.gates[target]
	r.n.mu.Unlock()
	if g == nil {
		return nil, address.NewTargetNotFoundError(target)
	}
	close(g.arrived)
	select {
	case <-g.release:
	case <-ctx.Done():
		return nil, ctx.Err()
	}
	return r.StreamClient.Stream(ctx, target)
}

// ---- nodes and cluster

type Node struct {
	key      uint32
	addr     address.Address
	engine   xkv.DB
	faulty   *faultyEngine
	db       *kv.DB
	cfg      kv.Config
	cl       *cluster.Cluster
	internal *sub
	subs     map[int]*sub
	stalled  []*sub
	unsubbing map[int]*sub
	markerFb atomic.Int64
	fbWant   int64
	lWant    int64
	opening  atomic.Bool
	mu       sync.Mutex
	gates    map[address.Address]*recGate
}

type Cluster struct {
	ctx      context.Context
	T        int
	keys     []uint32
	nodes    map[uint32]*Node
	opNet    *mock.Network[kv.TxRequest, kv.TxRequest]
	fbNet    *mock.Network[kv.FeedbackMessage, types.Nil]
	leaseNet *mock.Network[kv.TxRequest, types.Nil]
	recNet   *mock.Network[kv.RecoveryRequest, kv.RecoveryResponse]
	opCl     *mock.UnaryClient[kv.TxRequest, kv.TxRequest]
	fbCl     *mock.UnaryClient[kv.FeedbackMessage, types.Nil]
	leaseCl  *mock.UnaryClient[kv.TxRequest, types.Nil]
	mu       sync.Mutex
	fbs      []*fbEntry
	msgs     []kv.TxRequest
	marker   int64
	universe []uint32
	anyStall bool     // some subscriber has been stalled: observer waits become soft
	missed   []string // soft waits that timed out
}

type hang struct{ what string }

func waitFor(what string, cond func() bool) {
	deadline := time.Now().Add(waitCap)
	for i := 0; ; i++ {
		if cond() {
			return
		}
		if time.Now().After(deadline) {
			panic(hang{what})
		}
		if i < 50 {
			time.Sleep(5 * time.Microsecond)
		} else {
			time.Sleep(100 * time.Microsecond)
		}
	}
}

// softWait is waitFor, except that once a subscriber has been stalled a timeout is recorded and the
// script goes on (what the other subscribers were handed is then visible in the dumps) instead of
// being reported as a hang. After the first miss the cap is short.
func (c *Cluster) softWait(what string, cond func() bool) {
	if !c.anyStall {
		waitFor(what, cond)
		return
	}
	cap := 3 * time.Second
	if len(c.missed) > 0 {
		cap = 150 * time.Millisecond
	}
	deadline := time.Now().Add(cap)
	for i := 0; ; i++ {
		if cond() {
			return
		}
		if time.Now().After(deadline) {
			if len(c.missed) < 20 {
				c.missed = append(c.missed, what)
			}
			return
		}
		if i < 50 {
			time.Sleep(5 * time.Microsecond)
		} else {
			time.Sleep(100 * time.Microsecond)
		}
	}
}

func NewCluster(ctx context.Context, keys []uint32, T int, universe []uint32) *Cluster {
	c := &Cluster{
		ctx: ctx, T: T, nodes: map[uint32]*Node{},
		opNet:    mock.NewNetwork[kv.TxRequest, kv.TxRequest](),
		fbNet:    mock.NewNetwork[kv.FeedbackMessage, types.Nil](),
		leaseNet: mock.NewNetwork[kv.TxRequest, types.Nil](),
		recNet:   mock.NewNetwork[kv.RecoveryRequest, kv.RecoveryResponse](),
		universe: universe,
	}
	c.opCl = c.opNet.UnaryClient()
	c.fbCl = c.fbNet.UnaryClient()
	c.leaseCl = c.leaseNet.UnaryClient()
	null := c.recNet.StreamServer(nullRecAddress)
	null.BindHandler(func(_ context.Context, s freighter.ServerStream[kv.RecoveryRequest, kv.RecoveryResponse]) error {
		_, err := s.Receive()
		return err
	})
	c.keys = append(c.keys, keys...)
	sort.Slice(c.keys, func(a, b int) bool { return c.keys[a] < c.keys[b] })
	group := node.Group{}
	for _, k := range c.keys {
		group[node.Key(k)] = node.Node{Key: node.Key(k), Address: address.Address("n" + strconv.Itoa(int(k))), State: node.StateHealthy}
	}
	for _, k := range c.keys {
		n := &Node{key: k, addr: group[node.Key(k)].Address, engine: memkv.New(), subs: map[int]*sub{}, gates: map[address.Address]*recGate{}}
		n.faulty = &faultyEngine{DB: n.engine}
		n.cl = &cluster.Cluster{Store: store.New(ctx)}
		g := node.Group{}
		for kk, vv := range group {
			g[kk] = vv
		}
		n.cl.SetState(ctx, store.State{Nodes: g, HostKey: node.Key(k)})
		c.nodes[k] = n
	}
	for _, k := range c.keys {
		c.open(c.nodes[k])
	}
	return c
}

func (c *Cluster) open(n *Node) {
	n.cfg = kv.Config{
		Cluster:                 n.cl,
		Engine:                  n.faulty,
		BatchTransportClient:    c.opNet.UnaryClient(),
		BatchTransportServer:    c.opNet.UnaryServer(n.addr),
		FeedbackTransportClient: &fbClient{UnaryClient: c.fbNet.UnaryClient(), c: c, n: n},
		FeedbackTransportServer: c.fbNet.UnaryServer(n.addr),
		LeaseTransportClient:    c.leaseNet.UnaryClient(),
		LeaseTransportServer:    c.leaseNet.UnaryServer(n.addr),
		RecoveryTransportClient: &recClient{StreamClient: c.recNet.StreamClient(), n: n},
		RecoveryTransportServer: c.recNet.StreamServer(n.addr),
		GossipInterval:          time.Hour,
		RecoveryThreshold:       c.T,
	}
	n.opening.Store(true)
	db, err := kv.Open(c.ctx, n.cfg)
	n.opening.Store(false)
	if err != nil {
		panic(fmt.Sprintf("kv.Open: %v", err))
	}
	n.db = db
	n.internal = &sub{id: -1}
	n.internal.lastMarker.Store(-1)
	n.internal.disconnect = db.OnChange(n.internal.handle)
	n.fbWant = n.markerFb.Load()
	n.lWant = 0
	// seed the always-rejected marker key
	if _, err := kv.VerifReadDigest(c.ctx, n.engine, []byte(keyR)); err != nil {
		if !errors.Is(err, query.ErrNotFound) {
			panic(err)
		}
		c.send(n, kv.TxRequest{Context: c.ctx, Sender: markerSender, Operations: []kv.Operation{markerOp(keyR, 0, markerVerBase+1)}})
		waitFor("seed ~r", func() bool {
			_, err := kv.VerifReadDigest(c.ctx, n.engine, []byte(keyR))
			return err == nil
		})
	}
}

func markerOp(key string, val int64, ver int64) kv.Operation {
	return kv.Operation{
		Change:      xkv.Change{Key: []byte(key), Value: []byte(strconv.FormatInt(val, 10)), Variant: change.VariantSet},
		Version:     version.Counter(ver),
		Leaseholder: 1,
	}
}

func (c *Cluster) send(n *Node, req kv.TxRequest) kv.TxRequest {
	res, err := c.opCl.Send(c.ctx, n.addr, req)
	if err != nil {
		panic(fmt.Sprintf("op send to %d: %v", n.key, err))
	}
	return res
}

// infected returns the operations node n would gossip right now (markers removed, sorted by key).
func (c *Cluster) infected(n *Node) (ops []kv.Operation, marker int64) {
	res := c.send(n, kv.TxRequest{Context: c.ctx})
	marker = -1
	for _, op := range res.Operations {
		if isMarker(op.Key) {
			if string(op.Key) == keyM {
				marker = int64(op.Version) - markerVerBase
			}
			continue
		}
		ops = append(ops, op)
	}
	sort.Slice(ops, func(a, b int) bool { return bytes.Compare(ops[a].Key, ops[b].Key) < 0 })
	return ops, marker
}

// barrier waits until node n's pipeline has fully processed everything sent to it so far.
func (c *Cluster) barrier(n *Node) {
	// L: local path
	n.lWant++
	if _, err := c.leaseCl.Send(c.ctx, n.addr, kv.TxRequest{Context: c.ctx, Leaseholder: node.Key(n.key)}); err != nil {
		panic(fmt.Sprintf("lease marker: %v", err))
	}
	want := n.lWant
	c.softWait("local marker at observer", func() bool { return n.internal.empties.Load() >= want })
	if n.internal.empties.Load() < want {
		n.lWant = n.internal.empties.Load()
	}
	// M: gossip ingress path
	c.marker++
	j := c.marker
	n.fbWant++
	c.send(n, kv.TxRequest{Context: c.ctx, Sender: markerSender, Operations: []kv.Operation{
		markerOp(keyM, j, markerVerBase+j), markerOp(keyR, 0, markerVerBase)}})
	fbWant := n.fbWant
	waitFor("marker feedback", func() bool { return n.markerFb.Load() >= fbWant })
	c.softWait(fmt.Sprintf("marker at observers of node %d", n.key), func() bool {
		if n.internal.lastMarker.Load() != j {
			return false
		}
		for _, s := range n.subs {
			if !s.stalled.Load() && s.lastMarker.Load() != j {
				return false
			}
		}
		return true
	})
	waitFor("marker in gossip store", func() bool { _, m := c.infected(n); return m == j })
	// F: feedback path
	msg := kv.FeedbackMessage{Sender: markerSender, Digests: kv.Digests{{Key: []byte(keyM), Version: version.Counter(markerVerBase + j), Leaseholder: 1, Variant: change.VariantSet}}}
	for i := 0; i < c.T+2; i++ {
		if _, err := c.fbCl.Send(c.ctx, n.addr, msg); err != nil {
			panic(fmt.Sprintf("feedback marker: %v", err))
		}
	}
	waitFor("marker recovered in gossip store", func() bool { _, m := c.infected(n); return m == -1 })
}

func (c *Cluster) barrierAll() {
	for _, k := range c.keys {
		c.barrier(c.nodes[k])
	}
}

func (c *Cluster) ingest(n *Node, sender uint32, ops []kv.Operation) {
	if len(ops) == 0 {
		return
	}
	c.send(n, kv.TxRequest{Context: c.ctx, Sender: node.Key(sender), Operations: ops})
	c.barrierAll()
}

func itemOp(it Item) kv.Operation {
	op := kv.Operation{Version: version.Counter(it.Ver), Leaseholder: node.Key(it.Lh)}
	op.Key = KeyBytes(it.K)
	if it.Del {
		op.Variant = change.VariantDelete
	} else {
		op.Variant = change.VariantSet
		op.Value = valBytes(it.V)
	}
	return op
}

// Step executes one op of the script and returns its return code.
func (c *Cluster) Step(o Op) (rc int) {
	switch o.Op {
	case "write", "del":
		n := c.nodes[o.N]
		if n == nil {
			return 0
		}
		if o.CtrFail {
			return c.writeCtrFail(n, o)
		}
		var err error
		// "cancel": the call runs under its own context, which the caller cancels as soon as the
		// call has returned (ctx, cancel := ...; Set(ctx, ...); cancel()). It must not matter.
		ctx, cancel := c.ctx, context.CancelFunc(func() {})
		if o.Cancel {
			ctx, cancel = context.WithCancel(c.ctx)
			c.anyStall = true // observer waits become soft: a lost notification shows in the dumps
			// the context is cancelled the moment the storage commit of this write completes (a
			// deadline firing while the call is finishing), and again right after the call returned
			f := func() { cancel() }
			for _, k := range c.keys {
				c.nodes[k].faulty.onCommit.Store(&f)
			}
		}
		if o.Op == "write" {
			if o.Lease != 0 {
				err = n.db.Set(ctx, KeyBytes(o.K), valBytes(o.V), node.Key(o.Lease))
			} else {
				err = n.db.Set(ctx, KeyBytes(o.K), valBytes(o.V))
			}
		} else {
			err = n.db.Delete(ctx, KeyBytes(o.K))
		}
		cancel()
		for _, k := range c.keys {
			c.nodes[k].faulty.onCommit.Store(nil)
		}
		c.barrierAll()
		if err == nil {
			return 0
		}
		if errors.Is(err, kv.ErrLeaseNotTransferable) {
			return 1
		}
		return 2
	case "inject":
		n := c.nodes[o.N]
		if n == nil {
			return 0
		}
		ops := make([]kv.Operation, 0, len(o.Batch))
		for _, it := range o.Batch {
			ops = append(ops, itemOp(it))
		}
		c.ingest(n, o.Sender, ops)
	case "snap":
		n := c.nodes[o.N]
		if n == nil {
			return 0
		}
		ops, _ := c.infected(n)
		c.msgs = append(c.msgs, kv.TxRequest{Sender: node.Key(o.N), Operations: ops})
	case "deliver":
		n := c.nodes[o.N]
		if n == nil || o.M < 0 || o.M >= len(c.msgs) {
			return 0
		}
		m := c.msgs[o.M]
		c.ingest(n, uint32(m.Sender), slices.Clone(m.Operations))
	case "round":
		ni, nj := c.nodes[o.I], c.nodes[o.J]
		if ni == nil || nj == nil || o.I == o.J {
			return 0
		}
		payload, _ := c.infected(ni)
		if len(payload) == 0 {
			return 0
		}
		var reply []kv.Operation
		if !o.Late {
			reply, _ = c.infected(nj)
		}
		c.ingest(nj, o.I, payload)
		if o.Late {
			reply, _ = c.infected(nj)
		}
		c.ingest(ni, o.J, reply)
	case "fb":
		c.mu.Lock()
		var f *fbEntry
		if o.F >= 0 && o.F < len(c.fbs) && !c.fbs[o.F].done {
			f = c.fbs[o.F]
			f.done = true
		}
		c.mu.Unlock()
		if f == nil {
			return 0
		}
		if _, err := c.fbCl.Send(c.ctx, c.nodes[f.dest].addr, f.msg); err != nil {
			panic(fmt.Sprintf("feedback delivery: %v", err))
		}
		c.barrierAll()
	case "fball":
		c.mu.Lock()
		var todo []*fbEntry
		for _, f := range c.fbs {
			if !f.done {
				f.done = true
				todo = append(todo, f)
			}
		}
		c.mu.Unlock()
		for _, f := range todo {
			if _, err := c.fbCl.Send(c.ctx, c.nodes[f.dest].addr, f.msg); err != nil {
				panic(fmt.Sprintf("feedback delivery: %v", err))
			}
		}
		c.barrierAll()
	case "restart":
		n := c.nodes[o.N]
		if n == nil {
			return 0
		}
		c.abortRecoveries(n)
		n.releaseStalled()
		if err := n.db.Close(); err != nil && !errors.Is(err, context.Canceled) {
			panic(fmt.Sprintf("close: %v", err))
		}
		n.subs = map[int]*sub{}
		c.open(n)
		c.barrierAll()
	case "recbegin":
		c.recBegin(o.N, o.P)
	case "recend":
		c.recEnd(o.N, o.P)
		c.barrierAll()
	case "recover":
		c.recBegin(o.N, o.P)
		c.recEnd(o.N, o.P)
		c.barrierAll()
	case "stall":
		n := c.nodes[o.N]
		if n == nil {
			return 0
		}
		s := n.subs[o.S]
		if s == nil || s.stalled.Load() {
			return 0
		}
		s.gate = make(chan struct{})
		s.stalled.Store(true)
		c.anyStall = true
		delete(n.subs, o.S)
		n.stalled = append(n.stalled, s)
		// more forwarded requests than the subscriber's private buffer holds (empty lease-forwarded
		// TxRequests: persisted, forwarded to every observer, invisible to engines and gossip)
		cnt := o.Count
		if cnt <= 0 {
			cnt = 70
		}
		for i := 0; i < cnt; i++ {
			n.lWant++
			if _, err := c.leaseCl.Send(c.ctx, n.addr, kv.TxRequest{Context: c.ctx, Leaseholder: node.Key(n.key)}); err != nil {
				panic(fmt.Sprintf("stall filler: %v", err))
			}
		}
		c.barrierAll()
	case "unsub_begin":
		// the subscriber's handler blocks mid-callback; it is disconnected in the background (the
		// Disconnect waits for the callback); meanwhile more forwarded requests than the observable
		// stream and the relay buffer hold together go by, paced on a subscriber that keeps up
		n := c.nodes[o.N]
		if n == nil {
			return 0
		}
		s := n.subs[o.S]
		if s == nil {
			return 0
		}
		s.gate = make(chan struct{})
		s.discDone = make(chan struct{})
		s.stalled.Store(true)
		c.anyStall = true
		delete(n.subs, o.S)
		n.stalled = append(n.stalled, s)
		if n.unsubbing == nil {
			n.unsubbing = map[int]*sub{}
		}
		n.unsubbing[o.S] = s
		send := func() {
			n.lWant++
			if _, err := c.leaseCl.Send(c.ctx, n.addr, kv.TxRequest{Context: c.ctx, Leaseholder: node.Key(n.key)}); err != nil {
				panic(fmt.Sprintf("unsub filler: %v", err))
			}
		}
		// a request every subscriber is handed, filtered or not (a gossip marker batch: a filtered
		// subscriber never sees the lease-forwarded fillers, whose TxRequest.Leaseholder is the host)
		c.marker++
		n.fbWant++
		c.send(n, kv.TxRequest{Context: c.ctx, Sender: markerSender, Operations: []kv.Operation{
			markerOp(keyM, c.marker, markerVerBase+c.marker), markerOp(keyR, 0, markerVerBase)}})
		waitFor("gated subscriber mid-callback", func() bool { return s.inCallback.Load() })
		go func() { s.disconnect(); close(s.discDone) }()
		time.Sleep(2 * time.Millisecond)
		cnt := o.Count
		if cnt <= 0 {
			cnt = 700
		}
		for i := 0; i < cnt; i++ {
			send()
			if i%8 == 7 && len(c.missed) == 0 {
				want := n.lWant - 8
				c.softWait("subscriber that keeps up, during a pending disconnect", func() bool { return n.internal.empties.Load() >= want })
			}
		}
		c.barrierAll()
	case "unsub_end":
		n := c.nodes[o.N]
		if n == nil || n.unsubbing[o.S] == nil {
			return 0
		}
		s := n.unsubbing[o.S]
		delete(n.unsubbing, o.S)
		s.openGate()
		select {
		case <-s.discDone:
		case <-time.After(waitCap):
			panic(hang{"disconnect never returned"})
		}
		c.barrierAll()
	case "sub":
		n := c.nodes[o.N]
		if n == nil {
			return 0
		}
		if _, ok := n.subs[o.S]; ok {
			return 0
		}
		s := &sub{id: o.S, filter: o.Filter}
		s.lastMarker.Store(-1)
		if o.Filter {
			s.disconnect = n.db.NewObservable(kv.IgnoreHostLeaseholder).OnChange(s.handle)
		} else {
			s.disconnect = n.db.OnChange(s.handle)
		}
		n.subs[o.S] = s
		c.barrierAll()
	}
	return 0
}

// writeCtrFail: DB.Set/Delete while the leaseholder's engine refuses the Set of the version-counter
// key. Return codes as for a write, plus 3 = the call did not return (versionAssigner dropped the
// request). The node whose counter flush failed is then reopened (kv.Open on the same engine).
func (c *Cluster) writeCtrFail(n *Node, o Op) int {
	for _, k := range c.keys {
		c.nodes[k].faulty.failCtr.Store(true)
	}
	before := map[uint32]int64{}
	for _, k := range c.keys {
		before[k] = c.nodes[k].faulty.ctrFired.Load()
	}
	done := make(chan error, 1)
	go func() {
		if o.Op == "write" {
			if o.Lease != 0 {
				done <- n.db.Set(c.ctx, KeyBytes(o.K), valBytes(o.V), node.Key(o.Lease))
			} else {
				done <- n.db.Set(c.ctx, KeyBytes(o.K), valBytes(o.V))
			}
		} else {
			done <- n.db.Delete(c.ctx, KeyBytes(o.K))
		}
	}()
	var err error
	returned := false
	var firedOn *Node
	deadline := time.Now().Add(waitCap)
	for !returned && firedOn == nil {
		select {
		case err = <-done:
			returned = true
		case <-time.After(50 * time.Microsecond):
			for _, k := range c.keys {
				if c.nodes[k].faulty.ctrFired.Load() > before[k] {
					firedOn = c.nodes[k]
				}
			}
			if time.Now().After(deadline) {
				panic(hang{"write under a counter-flush fault neither returned nor hit the fault"})
			}
		}
	}
	for _, k := range c.keys {
		c.nodes[k].faulty.failCtr.Store(false)
	}
	rc := 0
	if firedOn != nil && !returned {
		// HEAD drops the request inside versionAssigner: the call never returns. No marker can be sent
		// behind it (any request through versionAssigner would flush the advanced in-memory counter),
		// so the call gets a grace period to return unexpectedly; the node is then reopened, after
		// which a call that has not returned never will.
		select {
		case err = <-done:
			returned = true
		case <-time.After(300 * time.Millisecond):
			rc = 3
		}
	}
	if returned {
		if err != nil {
			rc = 2
			if errors.Is(err, kv.ErrLeaseNotTransferable) {
				rc = 1
			}
		}
	}
	if firedOn != nil {
		c.abortRecoveries(firedOn)
		firedOn.releaseStalled()
		if e := firedOn.db.Close(); e != nil && !errors.Is(e, context.Canceled) {
			panic(fmt.Sprintf("close: %v", e))
		}
		firedOn.subs = map[int]*sub{}
		c.open(firedOn)
	}
	c.barrierAll()
	return rc
}

func (c *Cluster) recBegin(nk, pk uint32) {
	n, p := c.nodes[nk], c.nodes[pk]
	if n == nil || p == nil || nk == pk {
		return
	}
	n.mu.Lock()
	if n.gates[p.addr] != nil {
		n.mu.Unlock()
		return
	}
	ctx, cancel := context.WithCancel(c.ctx)
	g := &recGate{arrived: make(chan struct{}), release: make(chan struct{}), done: make(chan error, 1), cancel: cancel}
	n.gates[p.addr] = g
	n.mu.Unlock()
	peer, _ := n.cl.Node(node.Key(pk))
	go func() { g.done <- kv.VerifRunSingleNodeRecovery(ctx, n.cfg, peer) }()
	select {
	case <-g.arrived:
	case err := <-g.done:
		panic(fmt.Sprintf("recovery ended before streaming: %v", err))
	case <-time.After(waitCap):
		panic(hang{"recovery never opened its stream"})
	}
}

func (c *Cluster) recEnd(nk, pk uint32) {
	n, p := c.nodes[nk], c.nodes[pk]
	if n == nil || p == nil {
		return
	}
	n.mu.Lock()
	g := n.gates[p.addr]
	delete(n.gates, p.addr)
	n.mu.Unlock()
	if g == nil {
		return
	}
	close(g.release)
	select {
	case err := <-g.done:
		if err != nil {
			panic(fmt.Sprintf("recovery failed: %v", err))
		}
	case <-time.After(waitCap):
		panic(hang{"recovery did not finish"})
	}
	g.cancel()
}

func (c *Cluster) abortRecoveries(n *Node) {
	n.mu.Lock()
	gs := n.gates
	n.gates = map[address.Address]*recGate{}
	n.mu.Unlock()
	for _, g := range gs {
		g.cancel()
		select {
		case <-g.done:
		case <-time.After(waitCap):
			panic(hang{"aborted recovery did not return"})
		}
	}
}

// Dump reads every node's engine (value + digest of every key of the universe, version counter)
// and gossip store, plus the captured feedback messages.
func (c *Cluster) Dump(withSubs bool) StepDump {
	var d StepDump
	for _, nk := range c.keys {
		n := c.nodes[nk]
		nd := NodeDump{N: nk, Eng: [][]int64{}, St: [][]int64{}}
		if b, closer, err := n.engine.Get(c.ctx, []byte("ver")); err == nil {
			nd.Ctr = int64(binary.LittleEndian.Uint64(b))
			_ = closer.Close()
		}
		for _, k := range c.universe {
			kb := KeyBytes(k)
			row := []int64{int64(k), 0, 0, 0, 0, 0, 0}
			if v, closer, err := n.engine.Get(c.ctx, kb); err == nil {
				row[1], row[2] = 1, valNum(v)
				_ = closer.Close()
			} else if !errors.Is(err, query.ErrNotFound) {
				panic(err)
			}
			if dig, err := kv.VerifReadDigest(c.ctx, n.engine, kb); err == nil {
				row[3], row[4], row[5], row[6] = 1, int64(dig.Version), int64(dig.Leaseholder), b2i(dig.Variant == change.VariantDelete)
				if !bytes.Equal(dig.Key, kb) {
					row[3] = 2
				}
			} else if !errors.Is(err, query.ErrNotFound) {
				panic(err)
			}
			if row[1] != 0 || row[3] != 0 {
				nd.Eng = append(nd.Eng, row)
			}
		}
		ops, _ := c.infected(n)
		for _, op := range ops {
			k, _ := keyNum(op.Key)
			v := int64(0)
			if op.Variant == change.VariantSet {
				v = valNum(op.Value)
			}
			nd.St = append(nd.St, []int64{k, int64(op.Version), int64(op.Leaseholder), b2i(op.Variant == change.VariantDelete), v})
		}
		d.Nodes = append(d.Nodes, nd)
		if withSubs {
			ids := make([]int, 0, len(n.subs))
			for id, s := range n.subs {
				if !s.stalled.Load() {
					ids = append(ids, id)
				}
			}
			sort.Ints(ids)
			for _, id := range ids {
				b := n.subs[id].drain()
				if b == nil {
					b = [][][]int64{}
				}
				d.Subs = append(d.Subs, SubDump{N: nk, S: id, B: b})
			}
		}
	}
	c.mu.Lock()
	d.Fbs = []FbDump{}
	for _, f := range c.fbs {
		fd := FbDump{Dest: int64(f.dest), From: int64(f.from), Done: f.done, Digs: [][]int64{}}
		for _, dg := range f.msg.Digests {
			k, _ := keyNum(dg.Key)
			fd.Digs = append(fd.Digs, []int64{k, int64(dg.Version), int64(dg.Leaseholder), b2i(dg.Variant == change.VariantDelete)})
		}
		d.Fbs = append(d.Fbs, fd)
	}
	c.mu.Unlock()
	return d
}

func (n *Node) releaseStalled() {
	for _, s := range n.stalled {
		s.openGate()
	}
	n.stalled = nil
	n.unsubbing = map[int]*sub{}
}

func (c *Cluster) Close() {
	for _, k := range c.keys {
		n := c.nodes[k]
		c.abortRecoveries(n)
		n.releaseStalled()
		_ = n.db.Close()
	}
	for _, k := range c.keys {
		_ = c.nodes[k].engine.Close()
	}
}

// Universe collects every key a script mentions.
func Universe(ops []Op) []uint32 {
	seen := map[uint32]bool{}
	for _, o := range ops {
		switch o.Op {
		case "write", "del":
			seen[o.K] = true
		case "inject":
			for _, it := range o.Batch {
				seen[it.K] = true
			}
		}
	}
	out := make([]uint32, 0, len(seen))
	for k := range seen {
		out = append(out, k)
	}
	sort.Slice(out, func(a, b int) bool { return out[a] < out[b] })
	return out
}

// RunCase runs one script; a dump follows every op.
func RunCase(cs Case, withSubs bool) (res Result) {
	res.ID = cs.ID
	res.Outs = []StepDump{}
	var c *Cluster
	defer func() {
		if r := recover(); r != nil {
			if h, ok := r.(hang); ok {
				res.Hang = h.what
			} else {
				res.Panic = fmt.Sprint(r)
			}
		}
		if c != nil {
			res.Missed = c.missed
			for _, k := range c.keys {
				res.Fired += c.nodes[k].faulty.fired.Load()
			}
			done := make(chan struct{})
			go func() { defer close(done); defer func() { _ = recover() }(); c.Close() }()
			select {
			case <-done:
			case <-time.After(waitCap):
			}
		}
	}()
	T := cs.T
	if T < 1 {
		T = 1
	}
	ctx := context.Background()
	c = NewCluster(ctx, cs.Nodes, T, Universe(cs.Ops))
	c.barrierAll()
	for i, o := range cs.Ops {
		if o.Op == "fail" {
			// "the next ingress commit on node n fails": only meaningful right before an ingesting step
			if n := c.nodes[o.N]; n != nil && i+1 < len(cs.Ops) {
				switch cs.Ops[i+1].Op {
				case "inject", "deliver", "round":
					switch o.What {
					case "val":
						kb := KeyBytes(o.K)
						n.faulty.failKey.Store(&kb)
					case "dig":
						kb := append([]byte("--dig/"), KeyBytes(o.K)...)
						n.faulty.failKey.Store(&kb)
					default:
						n.faulty.armed.Store(true)
					}
				}
			}
		}
		rc := c.Step(o)
		if o.Op != "fail" {
			for _, k := range c.keys {
				c.nodes[k].faulty.armed.Store(false)
				c.nodes[k].faulty.failKey.Store(nil)
			}
		}
		d := c.Dump(withSubs)
		d.Rc = rc
		res.Outs = append(res.Outs, d)
	}
	return res
}
