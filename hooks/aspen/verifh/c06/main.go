//go:build verif

// Command c06 drives real aspen kv.DB nodes through scripted deliveries (see package kvdrv).
// Line protocol: one JSON case per stdin line, one JSON result per stdout line.
package main

import (
	"bufio"
	"encoding/json"
	"fmt"
	"os"

	"github.com/synnaxlabs/aspen/verifh/kvdrv"
)

func main() {
	withSubs := len(os.Args) > 1 && os.Args[1] == "subs"
	in := bufio.NewScanner(os.Stdin)
	in.Buffer(make([]byte, 1<<20), 1<<26)
	out := bufio.NewWriter(os.Stdout)
	defer out.Flush()
	for in.Scan() {
		var c kvdrv.Case
		if err := json.Unmarshal(in.Bytes(), &c); err != nil {
			fmt.Fprintln(os.Stderr, "bad case:", err)
			os.Exit(2)
		}
		b, _ := json.Marshal(kvdrv.RunCase(c, withSubs))
		out.Write(b)
		out.WriteByte('\n')
		out.Flush()
	}
}
