//go:build verif

package gossip

import "context"

// VerifTick exposes incrementHostHeartbeat to the verification harness.
func (g *Gossip) VerifTick(ctx context.Context) { g.incrementHostHeartbeat(ctx) }
