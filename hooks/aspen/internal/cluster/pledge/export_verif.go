//go:build verif

package pledge

// Sentinel errors of the pledge package, exposed (add-only) so that the verification
// harness can classify what crosses the transport.
var (
	VerifErrQuorumUnreachable = errQuorumUnreachable
	VerifErrProposalRejected  = errProposalRejected
)
