//go:build verif

package kv

import (
	"context"

	"github.com/synnaxlabs/aspen/internal/node"
	xkv "github.com/synnaxlabs/x/kv"
)

// VerifSupersedes exposes supersedes to the verification harness.
func VerifSupersedes(ctx context.Context, r xkv.Reader, op Operation) (bool, error) {
	return supersedes(ctx, r, op)
}

// VerifRunSingleNodeRecovery exposes runSingleNodeRecovery (start-up recovery from one peer).
func VerifRunSingleNodeRecovery(ctx context.Context, cfg Config, peer node.Node) error {
	return runSingleNodeRecovery(ctx, cfg, peer)
}

// VerifLoadHighWater exposes loadHighWater.
func VerifLoadHighWater(ctx context.Context, cfg Config) (int64, error) {
	hw, err := loadHighWater(ctx, cfg)
	return int64(hw), err
}

// VerifReadDigest reads the digest stored next to key.
func VerifReadDigest(ctx context.Context, r xkv.Reader, key []byte) (Digest, error) {
	return getDigestFromKV(ctx, r, key)
}
