//go:build verif

package http

import "github.com/synnaxlabs/x/encoding"

// VerifC08NewStreamCodec applies a stream-server option to an empty option set and
// resolves the codec for contentType exactly as streamServer.resolveStreamCodec does at
// websocket upgrade time (one call = one connection).
func VerifC08NewStreamCodec(opt StreamServerOption, contentType string) (encoding.Codec, bool) {
	so := streamServerOptions{}
	opt(&so)
	for _, ac := range so.additionalCodecs {
		if ac.contentType == contentType {
			return ac.new(), true
		}
	}
	return nil, false
}
