//go:build verif

// Command c14 drives the real freighter stream transports (mock, HTTP/WebSocket on a
// loopback listener, gRPC on a loopback listener) through scripted client / handler
// actions. One JSON case per stdin line, one JSON result per stdout line. Each transport is
// started once per process; cases run sequentially.
//
// A case is one list of ops; each op belongs to the client ("c") or the handler ("h") side.
// The list order is the START order: the coordinator lets the owning side start op i and,
// unless the op is marked "nw" (no wait), waits for it to complete before starting op i+1.
// Every value / error returned by Send / CloseSend / Receive is recorded per side in call order.
package main

import (
	"bufio"
	"context"
	"encoding/json"
	stderrors "errors"
	"fmt"
	"io"
	"net"
	"os"
	"runtime"
	"runtime/debug"
	"strconv"
	"sync"
	"sync/atomic"
	"time"

	"github.com/gofiber/fiber/v3"
	"github.com/synnaxlabs/freighter"
	fgrpc "github.com/synnaxlabs/freighter/grpc"
	v1 "github.com/synnaxlabs/freighter/grpc/v1"
	fhttp "github.com/synnaxlabs/freighter/http"
	"github.com/synnaxlabs/freighter/mock"
	"github.com/synnaxlabs/x/address"
	"github.com/synnaxlabs/x/control"
	xjson "github.com/synnaxlabs/x/encoding/json"
	"github.com/synnaxlabs/x/encoding/msgpack"
	xerrors "github.com/synnaxlabs/x/errors"
	xhttp "github.com/synnaxlabs/x/http"
	"github.com/synnaxlabs/x/query"
	"github.com/synnaxlabs/x/validate"
	"google.golang.org/grpc"
	"google.golang.org/grpc/credentials/insecure"
)

// ---------------------------------------------------------------- payloads

// The payload has, besides an id and a sized text, fields whose wire form does not mention
// everything in every message: a map (each message carries only its own keys), a text and a slice
// that are omitted when empty. Their content is a function of (id, shape variant v).
type Req struct {
	Message string         `json:"message" msgpack:"message"`
	ID      int            `json:"id" msgpack:"id"`
	Labels  map[string]int `json:"labels" msgpack:"labels"`
	Note    string         `json:"note,omitempty" msgpack:"note,omitempty"`
	Tags    []int          `json:"tags,omitempty" msgpack:"tags,omitempty"`
	// Extra is nil in every scripted payload; the "poison" op puts a channel here: a value both
	// codecs reject, after the fields above have already been encoded.
	Extra any `json:"extra,omitempty" msgpack:"extra,omitempty"`
}

type Res struct {
	Message string         `json:"message" msgpack:"message"`
	ID      int            `json:"id" msgpack:"id"`
	Labels  map[string]int `json:"labels" msgpack:"labels"`
	Note    string         `json:"note,omitempty" msgpack:"note,omitempty"`
	Tags    []int          `json:"tags,omitempty" msgpack:"tags,omitempty"`
	// Extra is nil in every scripted payload; the "poison" op puts a channel here: a value both
	// codecs reject, after the fields above have already been encoded.
	Extra any `json:"extra,omitempty" msgpack:"extra,omitempty"`
}

const nVariants = 5

// extras is the deterministic content of the map / note / slice of payload id in shape v.
func extras(id, v int) (map[string]int, string, []int) {
	switch v {
	case 1:
		return map[string]int{"k" + strconv.Itoa(id): id}, "n" + strconv.Itoa(id), []int{id}
	case 2:
		keys := [][]string{{"a", "b"}, {"b", "c"}, {"c"}}[id%3]
		m := map[string]int{}
		for i, k := range keys {
			m[k] = id + i
		}
		return m, "", nil
	case 3:
		return map[string]int{}, "note " + strconv.Itoa(id%2), []int{1, 2, 3}
	case 4:
		return map[string]int{"a": id, "z": -id}, "", []int{id, id + 1}
	}
	return nil, "", nil
}

func sameExtras(l map[string]int, n string, t []int, v, id int) bool {
	el, en, et := extras(id, v)
	if n != en || len(l) != len(el) || len(t) != len(et) {
		return false
	}
	for k, x := range el {
		if y, ok := l[k]; !ok || y != x {
			return false
		}
	}
	for i := range et {
		if t[i] != et[i] {
			return false
		}
	}
	return true
}

// grpc's generated test messages only have an id and a text: the other fields travel as JSON
// inside the text
type grpcBody struct {
	M string         `json:"m"`
	L map[string]int `json:"l"`
	N string         `json:"n,omitempty"`
	T []int          `json:"t,omitempty"`
}

func packBody(m string, l map[string]int, n string, t []int) string {
	b, _ := json.Marshal(grpcBody{M: m, L: l, N: n, T: t})
	return string(b)
}

func unpackBody(s string) grpcBody {
	var b grpcBody
	if err := json.Unmarshal([]byte(s), &b); err != nil {
		return grpcBody{M: "!undecodable"}
	}
	return b
}

// filler is the deterministic content of a payload with the given id and size.
func filler(id, size int) string {
	if size == 0 {
		return ""
	}
	b := make([]byte, size)
	x := uint32(id)*2654435761 + 12345
	for i := range b {
		x = x*1664525 + 1013904223
		b[i] = 'a' + byte((x>>24)%26)
	}
	return string(b)
}

type reqTr struct{}

func (reqTr) Forward(_ context.Context, r Req) (*v1.Request, error) {
	return &v1.Request{Id: int32(r.ID), Message: packBody(r.Message, r.Labels, r.Note, r.Tags)}, nil
}
func (reqTr) Backward(_ context.Context, r *v1.Request) (Req, error) {
	b := unpackBody(r.Message)
	return Req{ID: int(r.Id), Message: b.M, Labels: b.L, Note: b.N, Tags: b.T}, nil
}

type resTr struct{}

func (resTr) Forward(_ context.Context, r Res) (*v1.Response, error) {
	return &v1.Response{Id: int32(r.ID), Message: packBody(r.Message, r.Labels, r.Note, r.Tags)}, nil
}
func (resTr) Backward(_ context.Context, r *v1.Response) (Res, error) {
	b := unpackBody(r.Message)
	return Res{ID: int(r.Id), Message: b.M, Labels: b.L, Note: b.N, Tags: b.T}, nil
}

// ---------------------------------------------------------------- errors

// script error kinds (what the handler returns)
const (
	kNil = iota
	kEOF
	kStreamClosed
	kNotFound
	kUnique
	kInvalidParams
	kQuery
	kUnauthorized
	kControl
	kValidation
	kRequired
	kInvalidType
	kConversion
	kPath
	kPlainX   // x/errors.New(msg)
	kPlainStd // stdlib errors.New(msg)
	kCanceled
	kDeadline
)

var msgVariants = []string{"", "channel 12", "a---b", "100%s done", "x: y", "é∀ unicode \"q\""}

func sentinel(k int) error {
	switch k {
	case kEOF:
		return freighter.EOF
	case kStreamClosed:
		return freighter.ErrStreamClosed
	case kNotFound:
		return query.ErrNotFound
	case kUnique:
		return query.ErrUniqueViolation
	case kInvalidParams:
		return query.ErrInvalidParameters
	case kQuery:
		return query.ErrQuery
	case kUnauthorized:
		return control.ErrUnauthorized
	case kControl:
		return control.ErrControl
	case kValidation:
		return validate.ErrValidation
	case kRequired:
		return validate.ErrRequired
	case kInvalidType:
		return validate.ErrInvalidType
	case kConversion:
		return validate.ErrConversion
	case kCanceled:
		return context.Canceled
	case kDeadline:
		return context.DeadlineExceeded
	}
	return nil
}

// mkErr builds the error a handler returns: kind k, message variant m, inner kind (for
// path errors) in.
func mkErr(k, m, in int) error {
	if m < 0 || m >= len(msgVariants) {
		m = 0
	}
	switch k {
	case kNil:
		return nil
	case kPlainX:
		return xerrors.New("boom " + msgVariants[m])
	case kPlainStd:
		return stderrors.New("boom " + msgVariants[m])
	case kPath:
		if in == kPath || in == kNil {
			in = kValidation
		}
		return validate.PathedError(mkErr(in, m, 0), "cfg.field")
	}
	s := sentinel(k)
	if s == nil {
		return nil
	}
	if m == 0 {
		return s
	}
	return xerrors.Wrap(s, msgVariants[m])
}

// observed error classes (identity based: stdlib errors.Is / errors.As)
func classify(err error) int {
	var pe validate.PathError
	switch {
	case stderrors.Is(err, io.EOF):
		return kEOF
	case stderrors.Is(err, freighter.ErrStreamClosed):
		return kStreamClosed
	case stderrors.Is(err, context.Canceled):
		return kCanceled
	case stderrors.Is(err, context.DeadlineExceeded):
		return kDeadline
	case stderrors.As(err, &pe):
		return kPath
	case stderrors.Is(err, query.ErrNotFound):
		return kNotFound
	case stderrors.Is(err, query.ErrUniqueViolation):
		return kUnique
	case stderrors.Is(err, query.ErrInvalidParameters):
		return kInvalidParams
	case stderrors.Is(err, query.ErrQuery):
		return kQuery
	case stderrors.Is(err, control.ErrUnauthorized):
		return kUnauthorized
	case stderrors.Is(err, control.ErrControl):
		return kControl
	case stderrors.Is(err, validate.ErrRequired):
		return kRequired
	case stderrors.Is(err, validate.ErrInvalidType):
		return kInvalidType
	case stderrors.Is(err, validate.ErrConversion):
		return kConversion
	case stderrors.Is(err, validate.ErrValidation):
		return kValidation
	}
	return 99
}

// ---------------------------------------------------------------- protocol

type op struct {
	S  string `json:"s"`  // "c" client | "h" handler
	A  string `json:"a"`  // send | close | recv | ret
	P  int    `json:"p"`  // payload id
	Z  int    `json:"z"`  // payload size
	V  int    `json:"v"`  // payload shape variant (map / omitted fields)
	E  int    `json:"e"`  // error kind (ret)
	M  int    `json:"m"`  // message variant (ret)
	In int    `json:"in"` // inner kind of a path error (ret)
	NW bool   `json:"nw"` // do not wait for completion before starting the next op
	D  int    `json:"d"`  // sleep after issuing, in 100 µs units
}

type tcase struct {
	ID  int    `json:"id"`
	T   string `json:"t"` // mock | ws | wsm | grpc | grpci
	Ops []op   `json:"ops"`
	// Buf, when set, is the capacity of the mock transport's request channel (default 512:
	// Send never blocks). Small capacities are used by scripts that fill the channel exactly.
	Buf *int `json:"buf"`
	// Rbuf, when set, is the capacity of the mock transport's response channel (default 512).
	Rbuf *int `json:"rbuf"`
}

type obs struct {
	K   string `json:"k"` // ok | val | err
	P   int    `json:"p,omitempty"`
	Z   int    `json:"z,omitempty"`
	V   int    `json:"v,omitempty"`   // shape variant whose content the received payload has
	Bad bool   `json:"bad,omitempty"` // payload content is not that of any (p, z, v)
	Mut bool   `json:"mut,omitempty"` // the payload changed after it was delivered
	Cls int    `json:"cls,omitempty"`
	Msg string `json:"msg,omitempty"`
	Is  bool   `json:"is,omitempty"`  // x/errors.Is(received, sentinel of the kind the handler returned)
	In  int    `json:"in,omitempty"`  // class of the inner error of a PathError
	Pth string `json:"pth,omitempty"` // joined path of a PathError
}

type result struct {
	ID    int     `json:"id"`
	C     []obs   `json:"c"`
	H     []obs   `json:"h"`
	HMsg  string  `json:"hmsg"` // message of the error the handler returned
	Hang  bool    `json:"hang"`
	HRet  bool    `json:"hret"` // the handler function reached its return
	Open  string  `json:"open,omitempty"`
	Panic *string `json:"panic"`
	Note  string  `json:"note,omitempty"`
	// Poison lists what went wrong with deliberately unencodable sends ("" entries omitted)
	Poison []string `json:"poison,omitempty"`
}

// ---------------------------------------------------------------- one running case

type run struct {
	tc      tcase
	mu      sync.Mutex
	c, h    []obs
	keptC   []kept
	keptH   []kept
	goC     chan int // op indices released to the client side
	goH     chan int
	done    chan int
	hErr    error
	hKind   int
	hPath   bool
	hErrSet bool
	retDone bool
	hDone   chan struct{} // handler function returned
	hStart  chan struct{} // handler function entered
	panicS  *string
}

var (
	curMu sync.Mutex
	cur   *run
	// set while a "poison" op opens its auxiliary stream (cases run one at a time)
	auxOpening atomic.Bool
	auxEntered = make(chan bool, 4)
)

// poison: on another stream of the same transport, in the same process, both ends try to send
// a payload the codec rejects after having encoded part of it; the codec is also driven directly
// from many goroutines with such a value (as so many other failing Sends would). Returns what
// went wrong with the failing sends themselves ("" = each was refused with an error).
func poison(ctx context.Context, tname string) string {
	var codec xhttp.Codec
	switch tname {
	case "ws":
		codec = xjson.Codec
	case "wsm":
		codec = msgpack.Codec
	default:
		return ""
	}
	t, err := getTransport(tname)
	if err != nil {
		return "aux transport: " + err.Error()
	}
	actx, cancel := context.WithTimeout(ctx, 2*time.Second)
	defer cancel()
	auxOpening.Store(true)
	cs, err := t.client.Stream(actx, t.addr)
	if err != nil {
		auxOpening.Store(false)
		return "aux stream: " + err.Error()
	}
	what := ""
	select {
	case refused := <-auxEntered:
		if !refused {
			what = "handler Send of an unencodable payload returned nil"
		}
	case <-actx.Done():
		what = "aux handler did not start"
	}
	auxOpening.Store(false)
	if e := cs.Send(Req{ID: -1, Message: "unencodable", Labels: map[string]int{"x": 1}, Extra: make(chan int)}); e == nil {
		what = "client Send of an unencodable payload returned nil"
	}
	_ = cs.CloseSend()
	func() {
		defer func() { _ = recover() }()
		for k := 0; k < 1000; k++ {
			if _, e := cs.Receive(); e != nil {
				return
			}
		}
	}()
	var wg sync.WaitGroup
	for g := 0; g < 2*runtime.NumCPU(); g++ {
		wg.Add(1)
		go func() {
			defer wg.Done()
			for k := 0; k < 3; k++ {
				_ = codec.EncodeStream(ctx, io.Discard, fhttp.WSMessage[Req]{
					Type:    fhttp.WSMessageTypeData,
					Payload: Req{ID: -3, Message: "unencodable", Labels: map[string]int{"y": 2}, Extra: make(chan int)},
				})
			}
		}()
	}
	wg.Wait()
	return what
}

func errObs(r *run, err error) obs {
	o := obs{K: "err", Cls: classify(err), Msg: err.Error()}
	r.mu.Lock()
	if r.hErrSet && r.hErr != nil {
		if ref := sentinel(r.hKind); ref != nil {
			if r.hPath {
				var pe validate.PathError
				var pe0 validate.PathError
				o.Is = stderrors.As(err, &pe) && stderrors.As(r.hErr, &pe0) && pe.Err != nil &&
					xerrors.Is(pe.Err, ref) && fmt.Sprint(pe.Path) == fmt.Sprint(pe0.Path)
			} else {
				o.Is = xerrors.Is(err, ref)
			}
		}
	}
	r.mu.Unlock()
	var pe validate.PathError
	if stderrors.As(err, &pe) {
		if pe.Err != nil {
			o.In = classify(pe.Err)
		}
		o.Pth = fmt.Sprint(pe.Path)
	}
	return o
}

type kept struct {
	idx    int
	id     int
	msg    string
	labels map[string]int
	note   string
	tags   []int
}

func valObs(id int, msg string, l map[string]int, n string, t []int) obs {
	o := obs{K: "val", P: id, Z: len(msg)}
	if msg != filler(id, len(msg)) {
		o.Bad = true
	}
	found := false
	for v := 0; v < nVariants; v++ {
		if sameExtras(l, n, t, v, id) {
			o.V, found = v, true
			break
		}
	}
	if !found {
		o.Bad = true
	}
	return o
}

// recheck re-validates every delivered payload after the stream is over: a payload that no
// longer has the content it was delivered with was changed behind the receiver's back.
func recheck(obsl []obs, ks []kept) {
	for _, k := range ks {
		if k.idx >= len(obsl) {
			continue
		}
		now := valObs(k.id, k.msg, k.labels, k.note, k.tags)
		was := obsl[k.idx]
		if now.Bad != was.Bad || now.V != was.V || now.Z != was.Z {
			obsl[k.idx].Bad = true
			obsl[k.idx].Mut = true
		}
	}
}

func (r *run) recover(where string) {
	if p := recover(); p != nil {
		s := fmt.Sprintf("%s: %v\n%s", where, p, debug.Stack())
		r.mu.Lock()
		if r.panicS == nil {
			r.panicS = &s
		}
		r.mu.Unlock()
	}
}

// the handler bound to every transport
func handler(ctx context.Context, s freighter.ServerStream[Req, Res]) (err error) {
	if auxOpening.Load() {
		// an auxiliary stream opened by a "poison" op: try to send an unencodable response,
		// then consume whatever the client sends
		e := s.Send(Res{ID: -2, Message: "unencodable", Labels: map[string]int{"x": 1}, Extra: make(chan int)})
		auxEntered <- (e != nil)
		for {
			if _, e := s.Receive(); e != nil {
				return nil
			}
		}
	}
	curMu.Lock()
	r := cur
	curMu.Unlock()
	if r == nil {
		return stderrors.New("no current case")
	}
	close(r.hStart)
	defer close(r.hDone)
	defer r.recover("handler")
	for i := range r.goH {
		o := r.tc.Ops[i]
		switch o.A {
		case "recv":
			v, e := s.Receive()
			r.mu.Lock()
			if e != nil {
				r.mu.Unlock()
				ob := errObs(r, e)
				r.mu.Lock()
				r.h = append(r.h, ob)
			} else {
				r.keptH = append(r.keptH, kept{len(r.h), v.ID, v.Message, v.Labels, v.Note, v.Tags})
				r.h = append(r.h, valObs(v.ID, v.Message, v.Labels, v.Note, v.Tags))
			}
			r.mu.Unlock()
		case "send":
			xl, xn, xt := extras(o.P, o.V)
			e := s.Send(Res{ID: o.P, Message: filler(o.P, o.Z), Labels: xl, Note: xn, Tags: xt})
			if e != nil {
				ob := errObs(r, e)
				r.mu.Lock()
				r.h = append(r.h, ob)
				r.mu.Unlock()
			} else {
				r.mu.Lock()
				r.h = append(r.h, obs{K: "ok"})
				r.mu.Unlock()
			}
		case "ret":
			e := mkErr(o.E, o.M, o.In)
			r.mu.Lock()
			r.hErr, r.hErrSet, r.hKind = e, true, o.E
			r.retDone = true
			if o.E == kPath {
				r.hPath = true
				r.hKind = o.In
				if o.In == kPath || o.In == kNil {
					r.hKind = kValidation
				}
			}
			r.mu.Unlock()
			r.done <- i
			return e
		}
		r.done <- i
	}
	// script had no ret (clean-up path): end the stream normally
	r.mu.Lock()
	r.hErrSet = true
	r.mu.Unlock()
	return nil
}

func clientSide(r *run, cs freighter.ClientStream[Req, Res]) {
	defer r.recover("client")
	for i := range r.goC {
		o := r.tc.Ops[i]
		func() {
			defer func() {
				if p := recover(); p != nil {
					s := fmt.Sprintf("client op %d (%s): %v\n%s", i, o.A, p, debug.Stack())
					r.mu.Lock()
					if r.panicS == nil {
						r.panicS = &s
					}
					r.c = append(r.c, obs{K: "panic"})
					r.mu.Unlock()
				}
			}()
			switch o.A {
			case "recv":
				v, e := cs.Receive()
				if e != nil {
					ob := errObs(r, e)
					r.mu.Lock()
					r.c = append(r.c, ob)
					r.mu.Unlock()
				} else {
					r.mu.Lock()
					r.keptC = append(r.keptC, kept{len(r.c), v.ID, v.Message, v.Labels, v.Note, v.Tags})
					r.c = append(r.c, valObs(v.ID, v.Message, v.Labels, v.Note, v.Tags))
					r.mu.Unlock()
				}
			case "send":
				xl, xn, xt := extras(o.P, o.V)
				e := cs.Send(Req{ID: o.P, Message: filler(o.P, o.Z), Labels: xl, Note: xn, Tags: xt})
				if e != nil {
					ob := errObs(r, e)
					r.mu.Lock()
					r.c = append(r.c, ob)
					r.mu.Unlock()
				} else {
					r.mu.Lock()
					r.c = append(r.c, obs{K: "ok"})
					r.mu.Unlock()
				}
			case "close":
				e := cs.CloseSend()
				if e != nil {
					ob := errObs(r, e)
					r.mu.Lock()
					r.c = append(r.c, ob)
					r.mu.Unlock()
				} else {
					r.mu.Lock()
					r.c = append(r.c, obs{K: "ok"})
					r.mu.Unlock()
				}
			}
		}()
		r.done <- i
	}
}

// ---------------------------------------------------------------- transports

type transport struct {
	client freighter.StreamClient[Req, Res]
	addr   address.Address
}

var (
	trMu sync.Mutex
	trs  = map[string]*transport{}
)

type grpcSrv struct {
	fgrpc.StreamServerCore[Req, *v1.Request, Res, *v1.Response]
}

func (s *grpcSrv) Exec(stream v1.TestStreamService_ExecServer) error {
	return s.Handler(stream.Context(), stream)
}

func startWS(codec xhttp.Codec) (*transport, error) {
	lis, err := net.Listen("tcp", "127.0.0.1:0")
	if err != nil {
		return nil, err
	}
	app := fiber.New(fiber.Config{})
	router, err := fhttp.NewRouter(fhttp.RouterConfig{})
	if err != nil {
		return nil, err
	}
	srv := fhttp.NewStreamServer[Req, Res](router, "/")
	srv.BindHandler(handler)
	router.BindTo(app)
	go func() {
		_ = app.Listener(lis, fiber.ListenConfig{DisableStartupMessage: true})
	}()
	cl, err := fhttp.NewStreamClient[Req, Res](fhttp.StreamClientConfig{Codec: codec})
	if err != nil {
		return nil, err
	}
	return &transport{client: cl, addr: address.Address(lis.Addr().String())}, nil
}

func startGRPC(internal bool) (*transport, error) {
	lis, err := net.Listen("tcp", "127.0.0.1:0")
	if err != nil {
		return nil, err
	}
	gs := grpc.NewServer()
	s := &grpcSrv{StreamServerCore: fgrpc.StreamServerCore[Req, *v1.Request, Res, *v1.Response]{
		RequestTranslator:  reqTr{},
		ResponseTranslator: resTr{},
		ServiceDesc:        &v1.TestStreamService_ServiceDesc,
		Internal:           internal,
	}}
	s.BindHandler(handler)
	v1.RegisterTestStreamServiceServer(gs, s)
	go func() { _ = gs.Serve(lis) }()
	pool := fgrpc.NewPool("", grpc.WithTransportCredentials(insecure.NewCredentials()))
	cl := &fgrpc.StreamClient[Req, *v1.Request, Res, *v1.Response]{
		RequestTranslator:  reqTr{},
		ResponseTranslator: resTr{},
		Pool:               pool,
		ServiceDesc:        &v1.TestStreamService_ServiceDesc,
		ClientFunc: func(ctx context.Context, conn grpc.ClientConnInterface) (fgrpc.GRPCClientStream[*v1.Request, *v1.Response], error) {
			return v1.NewTestStreamServiceClient(conn).Exec(ctx)
		},
	}
	return &transport{client: cl, addr: address.Address(lis.Addr().String())}, nil
}

func getTransport(name string) (*transport, error) {
	trMu.Lock()
	defer trMu.Unlock()
	if t, ok := trs[name]; ok {
		return t, nil
	}
	var (
		t   *transport
		err error
	)
	switch name {
	case "ws":
		t, err = startWS(xjson.Codec)
	case "wsm":
		t, err = startWS(msgpack.Codec)
	case "grpc":
		t, err = startGRPC(false)
	case "grpci":
		t, err = startGRPC(true)
	default:
		err = fmt.Errorf("unknown transport %q", name)
	}
	if err != nil {
		return nil, err
	}
	trs[name] = t
	return t, nil
}

// ---------------------------------------------------------------- case execution

const opTimeout = 3 * time.Second

func runCase(tc tcase) (res result) {
	res = result{ID: tc.ID, C: []obs{}, H: []obs{}}
	r := &run{
		tc:     tc,
		goC:    make(chan int, len(tc.Ops)+1),
		goH:    make(chan int, len(tc.Ops)+1),
		done:   make(chan int, len(tc.Ops)+1),
		hDone:  make(chan struct{}),
		hStart: make(chan struct{}),
	}
	curMu.Lock()
	cur = r
	curMu.Unlock()
	ctx, cancel := context.WithCancel(context.Background())
	defer cancel()

	var cs freighter.ClientStream[Req, Res]
	var err error
	if tc.T == "mock" {
		reqBuf := 512
		if tc.Buf != nil && *tc.Buf >= 0 {
			reqBuf = *tc.Buf
		}
		resBuf := 512
		if tc.Rbuf != nil && *tc.Rbuf >= 0 {
			resBuf = *tc.Rbuf
		}
		srv, cl := mock.NewStreamPair[Req, Res](reqBuf, resBuf)
		srv.BindHandler(handler)
		cs, err = cl.Stream(ctx, "")
	} else {
		var t *transport
		t, err = getTransport(tc.T)
		if err == nil {
			cs, err = t.client.Stream(ctx, t.addr)
		}
	}
	if err != nil {
		res.Open = err.Error()
		return res
	}
	clientDone := make(chan struct{})
	go func() { defer close(clientDone); clientSide(r, cs) }()
	// the handler of THIS stream must have been entered before any op is issued (a poison op
	// flags the next handler entry as auxiliary)
	select {
	case <-r.hStart:
	case <-time.After(opTimeout):
	}

	deadline := time.After(opTimeout)
	pending := map[int]bool{}
	hang := false
	waitFor := func(i int) bool {
		for pending[i] {
			select {
			case j := <-r.done:
				delete(pending, j)
			case <-deadline:
				return false
			}
		}
		return true
	}
	issuedC, issuedH := 0, 0 // ops handed to each side (handler: without its ret)
issue:
	for i, o := range tc.Ops {
		if o.S == "x" {
			// harness-level op, not part of either side's script
			if o.A == "poison" {
				if w := poison(ctx, tc.T); w != "" {
					res.Poison = append(res.Poison, w)
				}
			}
			continue
		}
		pending[i] = true
		if o.S == "h" {
			r.goH <- i
			if o.A != "ret" {
				issuedH++
			}
		} else {
			r.goC <- i
			issuedC++
		}
		if !o.NW {
			if !waitFor(i) {
				hang = true
				break issue
			}
		}
		if o.D > 0 {
			time.Sleep(time.Duration(o.D) * 100 * time.Microsecond)
		}
	}
	if !hang {
		for i := range tc.Ops {
			if !waitFor(i) {
				hang = true
				break
			}
		}
	}
	close(r.goC)
	close(r.goH)
	res.Hang = hang
	// ---- clean-up (not recorded)
	if !hang {
		select {
		case <-clientDone:
		case <-time.After(opTimeout):
			res.Hang = true
		}
		select {
		case <-r.hDone:
		case <-time.After(opTimeout):
			res.Hang = true
		}
	}
	if !res.Hang && tc.T != "mock" {
		// let the server finish its close handshake: drain until the terminal error
		fin := make(chan struct{})
		go func() {
			defer close(fin)
			defer func() { _ = recover() }()
			r.mu.Lock()
			seenTerm := false
			ci := 0
			for _, o := range tc.Ops {
				if o.S != "c" {
					continue
				}
				if o.A == "recv" && ci < len(r.c) && r.c[ci].K != "val" {
					seenTerm = true
				}
				ci++
			}
			r.mu.Unlock()
			if seenTerm {
				return
			}
			for k := 0; k < 100000; k++ {
				if _, e := cs.Receive(); e != nil {
					return
				}
			}
		}()
		select {
		case <-fin:
		case <-time.After(2 * time.Second):
			res.Note = "cleanup drain timed out"
		}
	}
	// snapshot BEFORE cancelling the context (cancellation makes blocked mock calls return)
	r.mu.Lock()
	recheck(r.c, r.keptC)
	recheck(r.h, r.keptH)
	res.C = append(res.C, r.c...)
	res.H = append(res.H, r.h...)
	if r.hErr != nil {
		res.HMsg = r.hErr.Error()
	}
	res.HRet = r.retDone
	res.Panic = r.panicS
	r.mu.Unlock()
	if res.Hang {
		// the call each side is stuck in (started, never returned) is recorded as "blocked"
		if len(res.C) < issuedC {
			res.C = append(res.C, obs{K: "blocked"})
		}
		if len(res.H) < issuedH {
			res.H = append(res.H, obs{K: "blocked"})
		}
	}
	cancel()
	return res
}

func main() {
	in := bufio.NewReaderSize(os.Stdin, 1<<20)
	out := bufio.NewWriter(os.Stdout)
	defer out.Flush()
	dec := json.NewDecoder(in)
	for {
		var tc tcase
		if err := dec.Decode(&tc); err != nil {
			if err != io.EOF {
				fmt.Fprintln(os.Stderr, "decode:", err)
			}
			break
		}
		res := runCase(tc)
		b, _ := json.Marshal(res)
		out.Write(b)
		out.WriteByte('\n')
		out.Flush()
		if res.Hang {
			// a hung stream leaves blocked goroutines behind; restart cleanly for the rest
			// by exiting is not possible mid-batch, so just continue: every case uses a
			// fresh stream and the shared handler reads the current case only at entry.
		}
	}
}
