//go:build verif

package gorp

// Add-only read accessors for the C17 check (/verif). They copy committed index
// state and the number of live per-transaction deltas; nothing is mutated.

// VerifDump returns copies of the forward and reverse maps and the number of
// per-transaction deltas currently held by the overlay.
func (l *LookupIndex[K, E, V]) VerifDump() (forward map[V][]K, reverse map[K]V, deltas int) {
	l.mu.RLock()
	forward = make(map[V][]K, len(l.forward))
	for v, ks := range l.forward {
		forward[v] = append([]K(nil), ks...)
	}
	reverse = make(map[K]V, len(l.reverse))
	for k, v := range l.reverse {
		reverse[k] = v
	}
	l.mu.RUnlock()
	l.overlay.deltaMu.Lock()
	deltas = len(l.overlay.txDeltas)
	l.overlay.deltaMu.Unlock()
	return
}

// VerifDump returns the sorted (value, key) slice in index order, a copy of the
// reverse map and the number of per-transaction deltas held by the overlay.
func (s *SortedIndex[K, E, V]) VerifDump() (values []V, keys []K, reverse map[K]V, deltas int) {
	s.mu.RLock()
	for _, e := range s.entries {
		values = append(values, e.value)
		keys = append(keys, e.key)
	}
	reverse = make(map[K]V, len(s.reverse))
	for k, v := range s.reverse {
		reverse[k] = v
	}
	s.mu.RUnlock()
	s.overlay.deltaMu.Lock()
	deltas = len(s.overlay.txDeltas)
	s.overlay.deltaMu.Unlock()
	return
}
