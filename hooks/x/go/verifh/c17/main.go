//go:build verif

// Command c17 drives the real x/go/gorp table + secondary indexes (LookupIndex,
// SortedIndex) over memkv through scripted histories of transactions, queries, table
// re-opens and replicated writes. Every query is executed twice: through the index
// filters (idx.Filter / MatchKeys / Match composed with And/Or/Not) and as one
// gorp.Match carrying the equivalent predicate (full scan). Line protocol: one JSON
// case per stdin line, one JSON result per stdout line.
package main

import (
	"bufio"
	"context"
	"encoding/json"
	"fmt"
	"os"
	"slices"
	"sort"

	"github.com/synnaxlabs/x/errors"
	"github.com/synnaxlabs/x/gorp"
	"github.com/synnaxlabs/x/kv"
	"github.com/synnaxlabs/x/kv/memkv"
	"github.com/synnaxlabs/x/observe"
	"github.com/synnaxlabs/x/query"
)

// Row is the entry type: K primary key, A lookup-indexed, B sorted-indexed, C payload.
type Row struct {
	K uint32
	A int32
	B int64
	C int32
}

func (r Row) GorpKey() uint32   { return r.K }
func (r Row) SetOptions() []any { return nil }

type filt struct {
	Kind string  `json:"k"` // keys | pred | idx | and | or | not
	Ks   []int64 `json:"ks"`
	Col  int     `json:"col"` // 0 K, 1 A, 2 B, 3 C
	Cmp  string  `json:"cmp"` // eq | lt
	V    int64   `json:"v"`
	I    int     `json:"i"` // 0 lookup(A), 1 sorted(B)
	Vs   []int64 `json:"vs"`
	Fs   []filt  `json:"fs"`
}

type op struct {
	Op   string    `json:"op"`
	T    int       `json:"t"`
	U    int       `json:"u"`
	Rows [][]int64 `json:"rows"`
	Ks   []int64   `json:"ks"`
	K    int64     `json:"kk"`
	A    int64     `json:"a"`
	B    int64     `json:"b"`
	C    int64     `json:"c"`
	F    *filt     `json:"f"`
	Dir  int       `json:"dir"`
	Cur  *int64    `json:"cur"`
	Lim  int       `json:"lim"`
	Chs  [][]int64 `json:"chs"` // [1,k,a,b,c] set ; [0,k] delete
	I    int       `json:"i"`
	Vs   []int64   `json:"vs"`
}

type tcase struct {
	ID    int       `json:"id"`
	Mode  int       `json:"mode"` // 0: separate index observable (production wiring), 1: DB is the observable
	Seed  [][]int64 `json:"seed"`
	Ops   []op      `json:"ops"`
	AVals []int64   `json:"avals"`
	BVals []int64   `json:"bvals"`
}

type qres struct {
	Err   int       `json:"e"`
	Rows  [][]int64 `json:"r"`
	Cnt   int       `json:"c"`
	CErr  int       `json:"ce"`
	Ex    bool      `json:"x"`
	ExErr int       `json:"xe"`
}

type txProbe struct {
	T    int         `json:"t"`
	Rows [][]int64   `json:"rows"`
	LG   [][]int64   `json:"lg"` // per A value: [v, keys...]
	SG   [][]int64   `json:"sg"`
}

type probe struct {
	Rows [][]int64 `json:"rows"`
	LF   [][]int64 `json:"lf"` // [v, keys sorted...]
	LR   [][]int64 `json:"lr"` // [k, v]
	LD   int       `json:"ld"`
	SE   [][]int64 `json:"se"` // [v, k] in index order
	SR   [][]int64 `json:"sr"`
	SD   int       `json:"sd"`
	Txs  []txProbe `json:"txs"`
	Inv  [2]bool   `json:"inv"` // Get(nil, v) of the lookup / sorted index answers ErrIndexInvalid
}

type out struct {
	E  int    `json:"e"`            // 0 ok 1 notfound 2 other 3 skipped
	QI *qres  `json:"qi,omitempty"` // indexed form
	QS *qres  `json:"qs,omitempty"` // scan form
	G  *[]int64 `json:"g,omitempty"`
	P  probe  `json:"p"`
}

type result struct {
	ID    int     `json:"id"`
	Outs  []out   `json:"outs"`
	P0    probe   `json:"p0"`
	Panic *string `json:"panic"`
}

func errClass(err error) int {
	if err == nil {
		return 0
	}
	if errors.Is(err, query.ErrNotFound) {
		return 1
	}
	return 2
}

func rowOf(r []int64) Row { return Row{K: uint32(r[0]), A: int32(r[1]), B: r[2], C: int32(r[3])} }
func rowTo(r Row) []int64 { return []int64{int64(r.K), int64(r.A), r.B, int64(r.C)} }

func colOf(r *Row, c int) int64 {
	switch c {
	case 0:
		return int64(r.K)
	case 1:
		return int64(r.A)
	case 2:
		return r.B
	default:
		return int64(r.C)
	}
}

// holds is the harness's own denotation of a filter tree on one row (the predicate
// handed to gorp.Match for the full-scan form).
func holds(f *filt, r *Row) bool {
	switch f.Kind {
	case "keys":
		return slices.Contains(f.Ks, int64(r.K))
	case "pred":
		x := colOf(r, f.Col)
		if f.Cmp == "lt" {
			return x < f.V
		}
		return x == f.V
	case "idx":
		if f.I == 0 {
			return slices.Contains(f.Vs, int64(r.A))
		}
		return slices.Contains(f.Vs, r.B)
	case "and":
		for i := range f.Fs {
			if !holds(&f.Fs[i], r) {
				return false
			}
		}
		return true
	case "or":
		for i := range f.Fs {
			if holds(&f.Fs[i], r) {
				return true
			}
		}
		return false
	case "not":
		return !holds(&f.Fs[0], r)
	}
	panic("bad filter kind " + f.Kind)
}

// faultDB wraps the kv store so that the kv commit of a chosen transaction can be made to fail
// (storage fault / aspen commit failure): Commit returns an error without applying the batch.
var errInjected = errors.New("c17: injected kv commit failure")

type faultTx struct {
	kv.Tx
	fail bool
}

func (f *faultTx) Commit(ctx context.Context, opts ...any) error {
	if f.fail {
		return errInjected
	}
	return f.Tx.Commit(ctx, opts...)
}

// flakyIter yields the first good positions of the wrapped iterator and then reports a storage
// error the way pebble does: the iterator turns invalid and the error is surfaced by Error() and
// returned from Close().
var errScan = errors.New("c17: injected read error in the middle of the scan")

type flakyIter struct {
	kv.Iterator
	good   int
	seen   int
	failed bool
}

func (i *flakyIter) step(ok bool) bool {
	if !ok {
		return false
	}
	i.seen++
	if i.seen > i.good {
		i.failed = true
		return false
	}
	return true
}
func (i *flakyIter) First() bool { i.seen = 0; i.failed = false; return i.step(i.Iterator.First()) }
func (i *flakyIter) Next() bool  { return i.step(i.Iterator.Next()) }
func (i *flakyIter) Valid() bool { return !i.failed && i.Iterator.Valid() }
func (i *flakyIter) Error() error {
	if i.failed {
		return errScan
	}
	return i.Iterator.Error()
}
func (i *flakyIter) Close() error {
	cErr := i.Iterator.Close()
	if i.failed {
		return errScan
	}
	return cErr
}

type faultDB struct {
	kv.DB
	last *faultTx
	// scanFault >= 0: the next iterator opened directly on the DB (the bulk populate of the next
	// OpenTable) dies after scanFault rows; consumed by that iterator.
	scanFault int
}

func (f *faultDB) OpenIterator(opts kv.IteratorOptions) (kv.Iterator, error) {
	base, err := f.DB.OpenIterator(opts)
	if err != nil || f.scanFault < 0 {
		return base, err
	}
	it := &flakyIter{Iterator: base, good: f.scanFault}
	f.scanFault = -1
	return it, nil
}

func (f *faultDB) OpenTx() kv.Tx {
	f.last = &faultTx{Tx: f.DB.OpenTx()}
	return f.last
}

type world struct {
	fdb    *faultDB
	ftx    map[int]*faultTx
	ctx    context.Context
	mode   int
	kvdb   kv.DB
	db     *gorp.DB
	obs    observe.Observer[kv.TxReader]
	table  *gorp.Table[uint32, Row]
	li     *gorp.LookupIndex[uint32, Row, int32]
	si     *gorp.SortedIndex[uint32, Row, int64]
	txs    map[int]gorp.Tx
	nested func()
	avals  []int64
	bvals  []int64
}

func (w *world) open() {
	w.li = gorp.NewLookupIndex[uint32, Row, int32]("a", func(r *Row) int32 { return r.A })
	w.si = gorp.NewSortedIndex[uint32, Row, int64]("b", func(r *Row) int64 { return r.B })
	t, err := gorp.OpenTable[uint32, Row](w.ctx, gorp.TableConfig[uint32, Row]{
		DB:      w.db,
		Indexes: []gorp.Index[uint32, Row]{w.li, w.si},
	})
	if err != nil {
		panic(err)
	}
	// a populate that hit the injected read error reports it; queries must stay correct
	if err := t.WaitForIndexes(w.ctx); err != nil && !errors.Is(err, errScan) {
		panic(err)
	}
	w.fdb.scanFault = -1
	w.table = t
}

func (w *world) build(f *filt) gorp.Filter[uint32, Row] {
	switch f.Kind {
	case "keys":
		ks := make([]uint32, len(f.Ks))
		for i, k := range f.Ks {
			ks[i] = uint32(k)
		}
		return gorp.MatchKeys[uint32, Row](ks...)
	case "pred":
		ff := *f
		return gorp.Match[uint32, Row](func(_ gorp.Context, r *Row) (bool, error) { return holds(&ff, r), nil })
	case "idx":
		if f.I == 0 {
			vs := make([]int32, len(f.Vs))
			for i, v := range f.Vs {
				vs[i] = int32(v)
			}
			return w.li.Filter(vs...)
		}
		return w.si.Filter(f.Vs...)
	case "and":
		fs := make([]gorp.Filter[uint32, Row], len(f.Fs))
		for i := range f.Fs {
			fs[i] = w.build(&f.Fs[i])
		}
		return gorp.And(fs...)
	case "or":
		fs := make([]gorp.Filter[uint32, Row], len(f.Fs))
		for i := range f.Fs {
			fs[i] = w.build(&f.Fs[i])
		}
		return gorp.Or(fs...)
	case "not":
		return gorp.Not(w.build(&f.Fs[0]))
	}
	panic("bad filter kind " + f.Kind)
}

func sortRows(rs []Row) [][]int64 {
	o := make([][]int64, 0, len(rs))
	for _, r := range rs {
		o = append(o, rowTo(r))
	}
	sort.Slice(o, func(i, j int) bool {
		for c := 0; c < 4; c++ {
			if o[i][c] != o[j][c] {
				return o[i][c] < o[j][c]
			}
		}
		return false
	})
	return o
}

func (w *world) tx(t int) (gorp.Tx, bool) {
	if t == 0 {
		return w.db, true
	}
	x, ok := w.txs[t]
	return x, ok
}

func (w *world) runQ(r gorp.Retrieve[uint32, Row], tx gorp.Tx, ordered bool) *qres {
	var rows []Row
	q := &qres{}
	q.Err = errClass(r.Entries(&rows).Exec(w.ctx, tx))
	if ordered {
		q.Rows = make([][]int64, 0, len(rows))
		for _, x := range rows {
			q.Rows = append(q.Rows, rowTo(x))
		}
	} else {
		q.Rows = sortRows(rows)
	}
	if !ordered {
		c, err := r.Count(w.ctx, tx)
		q.Cnt, q.CErr = c, errClass(err)
		x, err := r.Exists(w.ctx, tx)
		q.Ex, q.ExErr = x, errClass(err)
	}
	return q
}

func keysRow(v int64, ks []uint32) []int64 {
	o := []int64{v}
	s := make([]int64, len(ks))
	for i, k := range ks {
		s[i] = int64(k)
	}
	slices.Sort(s)
	return append(o, s...)
}

func (w *world) getsFor(tx gorp.Tx) (lg, sg [][]int64) {
	for _, v := range w.avals {
		ks, err := w.li.Get(tx, int32(v))
		if errors.Is(err, gorp.ErrIndexInvalid) {
			lg = nil
			break
		}
		if err != nil {
			panic(err)
		}
		lg = append(lg, keysRow(v, ks))
	}
	for _, v := range w.bvals {
		ks, err := w.si.Get(tx, v)
		if errors.Is(err, gorp.ErrIndexInvalid) {
			sg = nil
			break
		}
		if err != nil {
			panic(err)
		}
		sg = append(sg, keysRow(v, ks))
	}
	return
}

func (w *world) scan(tx gorp.Tx) [][]int64 {
	var rows []Row
	if err := w.table.NewRetrieve().Entries(&rows).Exec(w.ctx, tx); err != nil {
		panic(err)
	}
	return sortRows(rows)
}

func (w *world) probe() probe {
	var p probe
	p.Rows = w.scan(w.db)
	fwd, rev, ld := w.li.VerifDump()
	for v, ks := range fwd {
		p.LF = append(p.LF, keysRow(int64(v), ks))
		// duplicate keys inside a bucket must stay visible: keysRow keeps them
	}
	sort.Slice(p.LF, func(i, j int) bool { return p.LF[i][0] < p.LF[j][0] })
	for k, v := range rev {
		p.LR = append(p.LR, []int64{int64(k), int64(v)})
	}
	sort.Slice(p.LR, func(i, j int) bool { return p.LR[i][0] < p.LR[j][0] })
	p.LD = ld
	vals, keys, srev, sd := w.si.VerifDump()
	for i := range vals {
		p.SE = append(p.SE, []int64{vals[i], int64(keys[i])})
	}
	for k, v := range srev {
		p.SR = append(p.SR, []int64{int64(k), v})
	}
	sort.Slice(p.SR, func(i, j int) bool { return p.SR[i][0] < p.SR[j][0] })
	p.SD = sd
	// nil tx: committed state only (public API); an index whose populate failed says so
	if _, err := w.li.Get(nil, int32(0)); errors.Is(err, gorp.ErrIndexInvalid) {
		p.Inv[0] = true
	} else if err != nil {
		panic(err)
	}
	if _, err := w.si.Get(nil, int64(0)); errors.Is(err, gorp.ErrIndexInvalid) {
		p.Inv[1] = true
	} else if err != nil {
		panic(err)
	}
	ids := make([]int, 0, len(w.txs))
	for t := range w.txs {
		ids = append(ids, t)
	}
	sort.Ints(ids)
	for _, t := range ids {
		tp := txProbe{T: t, Rows: w.scan(w.txs[t])}
		tp.LG, tp.SG = w.getsFor(w.txs[t])
		p.Txs = append(p.Txs, tp)
	}
	return p
}

func (w *world) commit(t int) error {
	tx := w.txs[t]
	delete(w.txs, t)
	err := tx.Commit(w.ctx)
	if cerr := tx.Close(); err == nil {
		err = cerr
	}
	return err
}

func (w *world) abortAll() {
	for t, tx := range w.txs {
		_ = tx.Close()
		delete(w.txs, t)
	}
}

func (w *world) step(o op) (res out) {
	switch o.Op {
	case "begin":
		if _, ok := w.txs[o.T]; ok || o.T == 0 {
			res.E = 3
			return
		}
		w.txs[o.T] = w.db.OpenTx()
		w.ftx[o.T] = w.fdb.last
	case "create":
		tx, ok := w.tx(o.T)
		if !ok {
			res.E = 3
			return
		}
		rows := make([]Row, len(o.Rows))
		for i, r := range o.Rows {
			rows[i] = rowOf(r)
		}
		res.E = errClass(w.table.NewCreate().Entries(&rows).Exec(w.ctx, tx))
	case "update":
		tx, ok := w.tx(o.T)
		if !ok {
			res.E = 3
			return
		}
		u := w.table.NewUpdate()
		if o.F != nil {
			u = u.Where(w.build(o.F))
		} else {
			u = u.Where(gorp.MatchKeys[uint32, Row](uint32(o.K)))
		}
		res.E = errClass(u.Change(func(_ gorp.Context, r Row) Row {
			if o.A >= 0 {
				r.A = int32(o.A)
			}
			if o.B >= 0 {
				r.B = o.B
			}
			if o.C >= 0 {
				r.C = int32(o.C)
			}
			return r
		}).Exec(w.ctx, tx))
	case "delete":
		tx, ok := w.tx(o.T)
		if !ok {
			res.E = 3
			return
		}
		d := w.table.NewDelete()
		if o.F != nil {
			d = d.Where(w.build(o.F))
		} else {
			ks := make([]uint32, len(o.Ks))
			for i, k := range o.Ks {
				ks[i] = uint32(k)
			}
			d = d.Where(gorp.MatchKeys[uint32, Row](ks...))
		}
		res.E = errClass(d.Exec(w.ctx, tx))
	case "query":
		tx, ok := w.tx(o.T)
		if !ok {
			res.E = 3
			return
		}
		res.QI = w.runQ(w.table.NewRetrieve().Where(w.build(o.F)), tx, false)
		f := *o.F
		res.QS = w.runQ(w.table.NewRetrieve().Where(gorp.Match[uint32, Row](
			func(_ gorp.Context, r *Row) (bool, error) { return holds(&f, r), nil })), tx, false)
	case "oquery":
		tx, ok := w.tx(o.T)
		if !ok {
			res.E = 3
			return
		}
		oq := w.si.Ordered(gorp.Direction(o.Dir))
		if o.Cur != nil {
			oq = oq.After(*o.Cur)
		}
		r := w.table.NewRetrieve().OrderBy(oq).Limit(o.Lim)
		if o.F != nil {
			r = r.Where(w.build(o.F))
		}
		res.QI = w.runQ(r, tx, true)
		ff := o.F
		dir, cur := o.Dir, o.Cur
		res.QS = w.runQ(w.table.NewRetrieve().Where(gorp.Match[uint32, Row](
			func(_ gorp.Context, r *Row) (bool, error) {
				if cur != nil {
					if dir == 0 && !(r.B > *cur) {
						return false, nil
					}
					if dir == 1 && !(r.B < *cur) {
						return false, nil
					}
				}
				if ff != nil {
					return holds(ff, r), nil
				}
				return true, nil
			})), tx, false)
	case "commit":
		if _, ok := w.txs[o.T]; !ok {
			res.E = 3
			return
		}
		res.E = errClass(w.commit(o.T))
	case "commit2":
		// u commits entirely between t's kv commit and t's index flush: the kv store
		// notifies its observers synchronously inside t's commit; the harness's
		// subscriber performs u's commit there.
		_, ok1 := w.txs[o.T]
		_, ok2 := w.txs[o.U]
		if !ok1 || !ok2 || o.T == o.U {
			res.E = 3
			return
		}
		var inner error
		fired := false
		w.nested = func() { fired = true; inner = w.commit(o.U) }
		err := w.commit(o.T)
		if w.nested != nil {
			// t's batch was empty in a way that did not notify; commit u afterwards
			w.nested = nil
		}
		if !fired {
			inner = w.commit(o.U)
		}
		if err == nil {
			err = inner
		}
		res.E = errClass(err)
	case "commit_fail":
		// the kv commit of t returns an error; gorp must treat the transaction as not committed
		if _, ok := w.txs[o.T]; !ok {
			res.E = 3
			return
		}
		w.ftx[o.T].fail = true
		res.E = errClass(w.commit(o.T))
	case "abort":
		tx, ok := w.txs[o.T]
		if !ok {
			res.E = 3
			return
		}
		delete(w.txs, o.T)
		res.E = errClass(tx.Close())
	case "reopen":
		w.abortAll()
		if err := w.table.Close(); err != nil {
			panic(err)
		}
		w.open()
	case "reopen_fault":
		// close + OpenTable whose populate scan dies after o.Lim rows
		w.abortAll()
		if err := w.table.Close(); err != nil {
			panic(err)
		}
		w.fdb.scanFault = o.Lim
		w.open()
	case "repl":
		gtx := w.db.OpenTx()
		wr := gorp.WrapWriter[uint32, Row](gtx)
		var err error
		for _, ch := range o.Chs {
			if ch[0] == 1 {
				err = wr.Set(w.ctx, rowOf(ch[1:]))
			} else {
				err = wr.Delete(w.ctx, uint32(ch[1]))
			}
			if err != nil {
				panic(err)
			}
		}
		if err = gtx.Commit(w.ctx); err != nil {
			panic(err)
		}
		if w.mode == 0 {
			w.obs.NotifyGenerator(w.ctx, gtx.NewReader)
		}
		_ = gtx.Close()
	case "get":
		var ks []uint32
		var err error
		if o.I == 0 {
			vs := make([]int32, len(o.Vs))
			for i, v := range o.Vs {
				vs[i] = int32(v)
			}
			tx, ok := w.tx(o.T)
			if !ok {
				res.E = 3
				return
			}
			ks, err = w.li.Get(tx, vs...)
		} else {
			tx, ok := w.tx(o.T)
			if !ok {
				res.E = 3
				return
			}
			ks, err = w.si.Get(tx, o.Vs...)
		}
		res.E = errClass(err)
		g := append([]int64{}, keysRow(0, ks)[1:]...)
		res.G = &g
	default:
		panic("bad op " + o.Op)
	}
	return
}

func runCase(c tcase) (res result) {
	res.ID = c.ID
	defer func() {
		if r := recover(); r != nil {
			s := fmt.Sprint(r)
			res.Panic = &s
		}
	}()
	w := &world{ctx: context.Background(), mode: c.Mode, txs: map[int]gorp.Tx{}, ftx: map[int]*faultTx{},
		avals: c.AVals, bvals: c.BVals}
	w.fdb = &faultDB{DB: memkv.New(), scanFault: -1}
	w.kvdb = w.fdb
	if c.Mode == 0 {
		w.obs = observe.New[kv.TxReader]()
		w.db = gorp.Wrap(w.kvdb, gorp.WithIndexObservable(w.obs))
	} else {
		w.db = gorp.Wrap(w.kvdb)
	}
	defer func() {
		w.abortAll()
		if w.table != nil {
			_ = w.table.Close()
		}
		_ = w.db.Close()
	}()
	w.kvdb.OnChange(func(context.Context, kv.TxReader) {
		if f := w.nested; f != nil {
			w.nested = nil
			f()
		}
	})
	if len(c.Seed) > 0 {
		wr := gorp.WrapWriter[uint32, Row](w.db)
		for _, r := range c.Seed {
			if err := wr.Set(w.ctx, rowOf(r)); err != nil {
				panic(err)
			}
		}
	}
	w.open()
	res.P0 = w.probe()
	for _, o := range c.Ops {
		r := w.step(o)
		r.P = w.probe()
		res.Outs = append(res.Outs, r)
	}
	return res
}

func main() {
	in := bufio.NewScanner(os.Stdin)
	in.Buffer(make([]byte, 1<<20), 1<<26)
	o := bufio.NewWriter(os.Stdout)
	defer o.Flush()
	for in.Scan() {
		var c tcase
		if err := json.Unmarshal(in.Bytes(), &c); err != nil {
			fmt.Fprintln(os.Stderr, "bad case:", err)
			os.Exit(2)
		}
		b, _ := json.Marshal(runCase(c))
		o.Write(b)
		o.WriteByte('\n')
	}
}
