//go:build verif

package cesium

// VerifChannelKeys lists the keys of every channel currently open in the engine
// (unary and virtual), unsorted.
func (db *DB) VerifChannelKeys() (unary []ChannelKey, virtual []ChannelKey) {
	db.mu.RLock()
	defer db.mu.RUnlock()
	for k := range db.mu.dbs.unary {
		unary = append(unary, k)
	}
	for k := range db.mu.dbs.virtual {
		virtual = append(virtual, k)
	}
	return unary, virtual
}
