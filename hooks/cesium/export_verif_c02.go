//go:build verif

package cesium

import "context"

// VerifC02GC runs one synchronous garbage-collection pass over every unary channel
// (the same private garbageCollect the background ticker calls), one channel at a time.
func (db *DB) VerifC02GC(ctx context.Context) error {
	return db.garbageCollect(ctx, 1)
}
