//go:build verif

package cesium

import "context"

// VerifC01GC runs one synchronous garbage-collection pass over every channel: the function
// the background GC ticker calls (startGC), with the default goroutine limit.
func (db *DB) VerifC01GC(ctx context.Context) error {
	return db.garbageCollect(ctx, DefaultGCConfig.MaxGoroutine)
}
