//go:build verif

// Command c10 writes a layout into a real cesium.DB (in-memory FS) through the public
// writer API, opens the real unary.Iterator of one channel and executes a command
// sequence, reporting after every command ok / Valid() / View() / Error() class and the
// series of Value(). One JSON case per stdin line, one JSON result per stdout line.
package main

import (
	"encoding/json"
	"fmt"
	"reflect"
	"runtime"
	"sync"

	"github.com/synnaxlabs/cesium/internal/unary"
	"github.com/synnaxlabs/cesium/verifh/cesh"
	"github.com/synnaxlabs/x/telem"
)

type cmd struct {
	C string `json:"c"` // seek_first seek_last seek_le seek_ge next prev next_auto prev_auto set_bounds
	A int64  `json:"a"`
	B int64  `json:"b"`
	// F > 0 arms a one-shot read fault before the command: the F-th ReadAt on a data file of
	// the iterated channel's INDEX channel fails once (disarmed again after the command).
	F int `json:"f"`
}

// worker is one iterator script: channel, bounds, chunk and commands.
type worker struct {
	Key    uint32   `json:"key"`
	Bounds [2]int64 `json:"bounds"`
	Chunk  int64    `json:"chunk"`
	Ops    []cmd    `json:"ops"`
}

// conc scripts the concurrent phase that follows the sequential commands.
type conc struct {
	Workers []worker   `json:"workers"`
	Rounds  int        `json:"rounds"`
	Writer  []cesh.SOp `json:"writer"`
}

// wres is what one worker saw: the distinct outcomes of its rounds.
type wres struct {
	Variants [][]out `json:"variants"`
	Rounds   int     `json:"rounds"`
	Panic    *string `json:"panic,omitempty"`
	Fatal    string  `json:"fatal,omitempty"`
}

type tcase struct {
	ID     int        `json:"id"`
	Setup  cesh.Setup `json:"setup"`
	Key    uint32     `json:"key"`
	Bounds [2]int64   `json:"bounds"`
	Chunk  int64      `json:"chunk"`
	Ops    []cmd      `json:"ops"`
	Conc   *conc      `json:"conc,omitempty"`
}

type out struct {
	Ok    bool       `json:"ok"`
	Valid bool       `json:"valid"`
	View  [2]int64   `json:"view"`
	Err   int        `json:"err"`
	Ser   []cesh.Ser `json:"ser"`
	Msg   string     `json:"msg,omitempty"`
	// Fired: the scripted read fault armed for this command was hit.
	Fired bool `json:"fired,omitempty"`
	// Late: the series of the SAME frame (kept by reference, not copied) decoded again after
	// the whole command sequence has run; only set when it differs from Ser.
	Late []cesh.Ser `json:"late,omitempty"`
}

type result struct {
	ID     int         `json:"id"`
	Script []cesh.SRes `json:"script"`
	Outs   []out       `json:"outs"`
	Panic  *string     `json:"panic"`
	Fatal  string      `json:"fatal,omitempty"`
	Conc   []wres      `json:"conc,omitempty"`
	Writer []cesh.SRes `json:"writer,omitempty"`
}

func runCase(c tcase) (res result) {
	res.ID = c.ID
	res.Script = []cesh.SRes{}
	res.Outs = []out{}
	defer func() {
		if r := recover(); r != nil {
			s := fmt.Sprint(r)
			res.Panic = &s
		}
	}()
	env, err := cesh.NewEnv(c.Setup)
	if err != nil {
		res.Fatal = err.Error()
		return
	}
	defer env.Close()
	for _, o := range c.Setup.Script {
		res.Script = append(res.Script, env.Step(o))
	}
	if env.W != nil {
		_ = env.W.Close()
		env.W = nil
	}
	if err = runIter(env, worker{Key: c.Key, Bounds: c.Bounds, Chunk: c.Chunk, Ops: c.Ops}, true, &res.Outs); err != nil {
		res.Fatal = err.Error()
		return
	}
	if c.Conc != nil {
		res.Conc, res.Writer = runConc(env, *c.Conc)
	}
	return
}

// runIter opens the real unary.Iterator of one channel, executes the commands and closes it.
// Every frame handed out by Value() is kept by reference and decoded again at the end.
func runIter(env *cesh.Env, w worker, faults bool, dst *[]out) error {
	ch, ok := env.Chans[w.Key]
	if !ok {
		return fmt.Errorf("unknown iterator channel")
	}
	it, err := env.DB.VerifOpenUnaryIterator(w.Key, unary.IteratorConfig{
		Bounds:        telem.TimeRange{Start: telem.TimeStamp(w.Bounds[0]), End: telem.TimeStamp(w.Bounds[1])},
		AutoChunkSize: w.Chunk,
	})
	if err != nil {
		return err
	}
	defer func() { _ = it.Close() }()
	ctx := env.Ctx
	idxKey := ch.Index
	if idxKey == 0 {
		idxKey = ch.Key
	}
	// every frame handed out by Value() is kept, as a consumer collecting a traversal does
	kept := make([][]telem.Series, 0, len(w.Ops))
	for _, o := range w.Ops {
		var ok bool
		if faults && o.F > 0 {
			env.Fault.Arm(idxKey, o.F)
		}
		switch o.C {
		case "seek_first":
			ok = it.SeekFirst(ctx)
		case "seek_last":
			ok = it.SeekLast(ctx)
		case "seek_le":
			ok = it.SeekLE(ctx, telem.TimeStamp(o.A))
		case "seek_ge":
			ok = it.SeekGE(ctx, telem.TimeStamp(o.A))
		case "next":
			ok = it.Next(ctx, telem.TimeSpan(o.A))
		case "prev":
			ok = it.Prev(ctx, telem.TimeSpan(o.A))
		case "next_auto":
			ok = it.Next(ctx, unary.AutoSpan)
		case "prev_auto":
			ok = it.Prev(ctx, unary.AutoSpan)
		case "set_bounds":
			it.SetBounds(telem.TimeRange{Start: telem.TimeStamp(o.A), End: telem.TimeStamp(o.B)})
			ok = true
		}
		fired := false
		if faults {
			fired = env.Fault.Disarm()
		}
		v := it.View()
		r := out{Ok: ok, Valid: it.Valid(), View: [2]int64{int64(v.Start), int64(v.End)}, Ser: []cesh.Ser{}, Fired: fired}
		if e := it.Error(); e != nil {
			r.Err = cesh.ErrClass(e)
			r.Msg = e.Error()
			if len(r.Msg) > 120 {
				r.Msg = r.Msg[:120]
			}
		}
		held := it.Value().SeriesSlice()
		for _, s := range held {
			r.Ser = append(r.Ser, cesh.SeriesOf(ch.DT, s))
		}
		kept = append(kept, held)
		*dst = append(*dst, r)
	}
	// the traversal is over: look at the frames the caller still holds
	for n, held := range kept {
		late := []cesh.Ser{}
		for _, s := range held {
			late = append(late, cesh.SeriesOf(ch.DT, s))
		}
		if !reflect.DeepEqual(late, (*dst)[n].Ser) {
			(*dst)[n].Late = late
		}
	}
	return nil
}

// runConc is the concurrent phase: every worker is a goroutine that runs its command sequence
// Rounds times, each time on an iterator of its own, while the other workers do the same on
// channels of the same index and (optionally) one writer commits at a later time range. The
// stored content inside the workers' bounds does not change, so every round of a worker has
// one expected outcome; the distinct outcomes seen (at most 4) are reported.
func runConc(env *cesh.Env, c conc) ([]wres, []cesh.SRes) {
	if runtime.GOMAXPROCS(0) < 4 {
		runtime.GOMAXPROCS(4)
	}
	res := make([]wres, len(c.Workers))
	wr := []cesh.SRes{}
	var wg sync.WaitGroup
	start := make(chan struct{})
	for n := range c.Workers {
		wg.Add(1)
		go func(n int) {
			defer wg.Done()
			w := c.Workers[n]
			r := &res[n]
			r.Variants = [][]out{}
			round := func() {
				defer func() {
					if p := recover(); p != nil {
						s := fmt.Sprint(p)
						if r.Panic == nil {
							r.Panic = &s
						}
					}
				}()
				outs := make([]out, 0, len(w.Ops))
				if err := runIter(env, w, false, &outs); err != nil {
					if r.Fatal == "" {
						r.Fatal = err.Error()
					}
					return
				}
				for _, v := range r.Variants {
					if reflect.DeepEqual(v, outs) {
						return
					}
				}
				if len(r.Variants) < 4 {
					r.Variants = append(r.Variants, outs)
				}
			}
			<-start
			for i := 0; i < c.Rounds; i++ {
				round()
				r.Rounds++
			}
		}(n)
	}
	if len(c.Writer) > 0 {
		wg.Add(1)
		go func() {
			defer wg.Done()
			defer func() {
				if p := recover(); p != nil {
					wr = append(wr, cesh.SRes{Err: cesh.EOther, Msg: "panic: " + fmt.Sprint(p)})
				}
			}()
			<-start
			for _, o := range c.Writer {
				wr = append(wr, env.Step(o))
			}
		}()
	}
	close(start)
	wg.Wait()
	if env.W != nil {
		_ = env.W.Close()
		env.W = nil
	}
	return res, wr
}

func main() {
	cesh.Serve(func(line []byte) any {
		var c tcase
		if err := json.Unmarshal(line, &c); err != nil {
			return result{Fatal: "bad case: " + err.Error()}
		}
		return runCase(c)
	})
}
