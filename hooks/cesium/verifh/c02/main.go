//go:build verif

// Command c02 drives a real cesium.DB on an in-memory file system wrapped by a
// recorder that logs every MUTATING file-system call in issue order. For every prefix
// of that log (and torn variants of write payloads) it materialises a fresh in-memory
// image, reopens it with cesium.Open and with domain.Open (per channel directory),
// reads everything back, and runs a post-recovery follow-up script on the reopened
// database. Line protocol: one JSON case per stdin line, one JSON result per stdout line.
package main

import (
	"bufio"
	"context"
	"encoding/binary"
	"encoding/hex"
	"encoding/json"
	"fmt"
	"os"
	"path"
	"sort"
	"strconv"
	"strings"
	"sync"
	"time"

	"github.com/synnaxlabs/cesium"
	"github.com/synnaxlabs/cesium/internal/domain"
	"github.com/synnaxlabs/x/control"
	xfs "github.com/synnaxlabs/x/io/fs"
	"github.com/synnaxlabs/x/telem"
)

// ---------------------------------------------------------------- recording FS

type fsop struct {
	K   string `json:"k"` // mkdir create write writeat trunc rename remove
	P   string `json:"p"`
	Q   string `json:"q,omitempty"`
	Off int64  `json:"off"`
	D   string `json:"d,omitempty"` // payload (hex)
	raw []byte
}

// fault is a scripted I/O fault that does not kill the process: while armed, the next
// matching call on a file of channel directory Key fails. A data-file Write stores only
// the first J bytes and returns an error (short write, disk full); an index Truncate or
// WriteAt returns an error without touching the file.
type fault struct {
	Key  uint32 `json:"key"`
	File string `json:"file"` // data | index
	Call string `json:"call"` // write | writeat | trunc
	J    int    `json:"j"`
}

var errInjected = fmt.Errorf("injected I/O fault: no space left on device")

type rec struct {
	mu    sync.Mutex
	mem   *xfs.MemFS
	log   []fsop
	armed *fault
	fired int
}

// hit reports (and disarms) an armed fault matching this call. Caller holds r.mu.
func (r *rec) hit(path, call string) *fault {
	f := r.armed
	if f == nil || f.Call != call {
		return nil
	}
	dir, name := "", path
	if i := strings.Index(path, "/"); i >= 0 {
		dir, name = path[:i], path[i+1:]
	}
	if dir != strconv.Itoa(int(f.Key)) {
		return nil
	}
	isIndex := name == "index.domain"
	isData := strings.HasSuffix(name, ".domain") && !isIndex && name != "counter.domain"
	if (f.File == "index" && !isIndex) || (f.File == "data" && !isData) {
		return nil
	}
	r.armed = nil
	r.fired++
	return f
}

type recFS struct {
	r      *rec
	prefix string
}

var _ xfs.FS = (*recFS)(nil)

func (f *recFS) p(name string) string {
	return strings.TrimPrefix(path.Join(f.prefix, name), "/")
}

func (f *recFS) Open(name string, flag int) (xfs.File, error) {
	full := f.p(name)
	f.r.mu.Lock()
	defer f.r.mu.Unlock()
	existed, _ := f.r.mem.Exists(full)
	var oldSize int64
	if existed {
		if st, err := f.r.mem.Stat(full); err == nil {
			oldSize = st.Size()
		}
	}
	file, err := f.r.mem.Open(full, flag)
	if err != nil {
		return nil, err
	}
	if !existed && flag&os.O_CREATE != 0 {
		f.r.log = append(f.r.log, fsop{K: "create", P: full})
	}
	if existed && flag&os.O_TRUNC != 0 && oldSize != 0 {
		f.r.log = append(f.r.log, fsop{K: "trunc", P: full, Off: 0})
	}
	var wpos int64
	if flag&os.O_APPEND != 0 && flag&os.O_TRUNC == 0 {
		wpos = oldSize
	}
	return &recFile{File: file, r: f.r, path: full, wpos: wpos}, nil
}

func (f *recFS) Sub(name string) (xfs.FS, error) {
	full := f.p(name)
	f.r.mu.Lock()
	defer f.r.mu.Unlock()
	existed := true
	if full != "" {
		existed, _ = f.r.mem.Exists(full)
	}
	if _, err := f.r.mem.Sub(full); err != nil {
		return nil, err
	}
	if !existed {
		f.r.log = append(f.r.log, fsop{K: "mkdir", P: full})
	}
	return &recFS{r: f.r, prefix: full}, nil
}

func (f *recFS) List(name string) ([]xfs.FileInfo, error) { return f.r.mem.List(f.p(name)) }
func (f *recFS) Exists(name string) (bool, error)         { return f.r.mem.Exists(f.p(name)) }
func (f *recFS) Stat(name string) (xfs.FileInfo, error)   { return f.r.mem.Stat(f.p(name)) }

func (f *recFS) Remove(name string) error {
	full := f.p(name)
	f.r.mu.Lock()
	defer f.r.mu.Unlock()
	existed, _ := f.r.mem.Exists(full)
	err := f.r.mem.Remove(full)
	if err == nil && existed {
		f.r.log = append(f.r.log, fsop{K: "remove", P: full})
	}
	return err
}

func (f *recFS) Rename(o, n string) error {
	fo, fn := f.p(o), f.p(n)
	f.r.mu.Lock()
	defer f.r.mu.Unlock()
	err := f.r.mem.Rename(fo, fn)
	if err == nil {
		f.r.log = append(f.r.log, fsop{K: "rename", P: fo, Q: fn})
	}
	return err
}

type recFile struct {
	xfs.File
	r    *rec
	path string
	wpos int64
}

func (f *recFile) Write(p []byte) (int, error) {
	f.r.mu.Lock()
	defer f.r.mu.Unlock()
	var injected error
	if len(p) > 1 {
		if ft := f.r.hit(f.path, "write"); ft != nil {
			j := ft.J
			if j < 1 {
				j = 1
			}
			if j >= len(p) {
				j = len(p) - 1
			}
			p, injected = p[:j], errInjected
		}
	}
	n, err := f.File.Write(p)
	if err == nil {
		err = injected
	}
	if n > 0 {
		f.r.log = append(f.r.log, fsop{K: "write", P: f.path, Off: f.wpos, raw: append([]byte(nil), p[:n]...)})
		f.wpos += int64(n)
	}
	return n, err
}

func (f *recFile) WriteAt(p []byte, off int64) (int, error) {
	f.r.mu.Lock()
	defer f.r.mu.Unlock()
	if ft := f.r.hit(f.path, "writeat"); ft != nil {
		return 0, errInjected
	}
	n, err := f.File.WriteAt(p, off)
	if err == nil {
		f.r.log = append(f.r.log, fsop{K: "writeat", P: f.path, Off: off, raw: append([]byte(nil), p[:n]...)})
	}
	return n, err
}

func (f *recFile) Truncate(n int64) error {
	f.r.mu.Lock()
	defer f.r.mu.Unlock()
	if ft := f.r.hit(f.path, "trunc"); ft != nil {
		return errInjected
	}
	err := f.File.Truncate(n)
	if err == nil {
		f.r.log = append(f.r.log, fsop{K: "trunc", P: f.path, Off: n})
	}
	return err
}

// materialise builds a fresh in-memory image = effects of log[0:k] plus, if torn > 0,
// the first torn bytes of the payload of log[k].
func materialise(log []fsop, k int, torn int) *xfs.MemFS {
	m := xfs.NewMem()
	apply := func(o fsop, data []byte) {
		switch o.K {
		case "mkdir":
			_, _ = m.Sub(o.P)
		case "create":
			if f, err := m.Open(o.P, os.O_CREATE|os.O_RDWR); err == nil {
				_ = f.Close()
			}
		case "write", "writeat":
			if f, err := m.Open(o.P, os.O_RDWR); err == nil {
				_, _ = f.WriteAt(data, o.Off)
				_ = f.Close()
			}
		case "trunc":
			if f, err := m.Open(o.P, os.O_RDWR); err == nil {
				_ = f.Truncate(o.Off)
				_ = f.Close()
			}
		case "rename":
			_ = m.Rename(o.P, o.Q)
		case "remove":
			_ = m.Remove(o.P)
		}
	}
	for i := 0; i < k; i++ {
		apply(log[i], log[i].raw)
	}
	if torn > 0 {
		apply(log[k], log[k].raw[:torn])
	}
	return m
}

// ---------------------------------------------------------------- cases

type op struct {
	Op     string   `json:"op"`
	Key    uint32   `json:"key"`
	Index  uint32   `json:"index"`
	W      int      `json:"w"`
	Keys   []uint32 `json:"keys"`
	Start  int64    `json:"start"`
	Mode   string   `json:"mode"`
	Stamps []int64  `json:"stamps"`
	A      int64    `json:"a"`
	B      int64    `json:"b"`
	Single bool     `json:"single"`
	Fault  *fault   `json:"fault"`
}

type followGroup struct {
	Keys  []uint32 `json:"keys"`
	Start int64    `json:"start"`
}

type tcase struct {
	ID      int                `json:"id"`
	Cap     int64              `json:"cap"`
	Thr     float32            `json:"thr"`
	Torn    string             `json:"torn"`
	Ops     []op               `json:"ops"`
	Probes  map[string][]int64 `json:"probes"`
	Follow  []followGroup      `json:"follow"`
	DFollow int64              `json:"dfollow"`
	Focus   []int              `json:"focus"`
	Only    string             `json:"only"` // "" | plain | torn : which images of the focus range
	NoImgs  bool               `json:"noimgs"`
}

type chObs struct {
	St   string    `json:"st"` // ok | absent | err
	Full []int64   `json:"full"`
	Nar  [][]int64 `json:"nar"`
}

type domEntry struct {
	S int64  `json:"s"`
	E int64  `json:"e"`
	D string `json:"d"` // hex bytes, or "!" when the bytes cannot be read
}

type domProbe struct {
	Conflict bool  `json:"c"`  // OpenWriter(Start = stamp) refused
	Found    bool  `json:"f"`  // SeekLE(stamp) landed on a domain containing stamp
	S        int64 `json:"s"`
	E        int64 `json:"e"`
}

type domObs struct {
	Open   string     `json:"open"`
	List   []domEntry `json:"list"`
	Probe  []domProbe `json:"probe"`
	FW     string     `json:"fw"`
	List2  []domEntry `json:"list2"`
	Probe2 []domProbe `json:"probe2"`
}

type obs struct {
	Open string             `json:"open"`
	Ch   map[string]chObs   `json:"ch"`
	FW   []string           `json:"fw"`
	Ch2  map[string]chObs   `json:"ch2"`
	Ov   map[string][]bool  `json:"ov"`
	Dom  map[string]*domObs `json:"dom"`
}

type img struct {
	K int `json:"k"`
	T int `json:"t"`
	O int `json:"o"`
}

type result struct {
	ID     int      `json:"id"`
	Errs   []string `json:"errs"`
	Log    []fsop   `json:"log"`
	Bounds []int    `json:"bounds"`
	Live   []map[string][]int64 `json:"live"`
	Imgs   []img    `json:"imgs"`
	Obs    []obs    `json:"obs"`
	Panic  *string  `json:"panic"`
}

var ctx = context.Background()

func value(key uint32, stamp int64) int64 { return stamp*1000 + int64(key) }

func cesiumOpts(c tcase, fs xfs.FS) []cesium.Option {
	return []cesium.Option{
		cesium.WithFS(fs),
		cesium.WithFileSizeCap(telem.Size(c.Cap)),
		cesium.WithGCConfig(cesium.GCConfig{MaxGoroutine: 1, TryInterval: time.Hour, Threshold: c.Thr}),
	}
}

func errStr(err error) string {
	if err == nil {
		return ""
	}
	s := err.Error()
	if len(s) > 140 {
		s = s[:140]
	}
	if s == "" {
		s = "error"
	}
	return s
}

func decode64(b []byte) []int64 {
	out := make([]int64, 0, len(b)/8+1)
	for i := 0; i+8 <= len(b); i += 8 {
		out = append(out, int64(binary.LittleEndian.Uint64(b[i:])))
	}
	if len(b)%8 != 0 {
		out = append(out, -7)
	}
	return out
}

func readVals(db *cesium.DB, key uint32, tr telem.TimeRange) (vals []int64, st string) {
	vals = []int64{}
	defer func() {
		if r := recover(); r != nil {
			st = "err"
		}
	}()
	fr, err := db.Read(ctx, tr, key)
	if err != nil {
		if strings.Contains(err.Error(), "not found") {
			return vals, "absent"
		}
		return vals, "err"
	}
	for k, s := range fr.Entries() {
		if k != key {
			continue
		}
		vals = append(vals, decode64(s.Data)...)
	}
	return vals, "ok"
}

func frameFor(keys []uint32, isIndex map[uint32]bool, stamps []int64) telem.Frame[uint32] {
	series := make([]telem.Series, 0, len(keys))
	for _, k := range keys {
		if isIndex[k] {
			ts := make([]telem.TimeStamp, len(stamps))
			for i, s := range stamps {
				ts[i] = telem.TimeStamp(s)
			}
			series = append(series, telem.NewSeries(ts))
		} else {
			vs := make([]int64, len(stamps))
			for i, s := range stamps {
				vs[i] = value(k, s)
			}
			series = append(series, telem.NewSeries(vs))
		}
	}
	return telem.MultiFrame(keys, series)
}

func writerCfg(keys []uint32, start int64, mode string) cesium.WriterConfig {
	cfg := cesium.WriterConfig{
		Channels:       keys,
		Start:          telem.TimeStamp(start),
		Sync:           new(true),
		Mode:           cesium.WriterModePersistOnly,
		ControlSubject: control.Subject{Key: "verif" + strconv.FormatInt(start, 10)},
	}
	switch mode {
	case "always":
		cfg.EnableAutoCommit = new(true)
		cfg.AutoIndexPersistInterval = cesium.AlwaysIndexPersistOnAutoCommit
	case "lazy":
		cfg.EnableAutoCommit = new(true)
		cfg.AutoIndexPersistInterval = 1000 * telem.Hour
	default:
		cfg.EnableAutoCommit = new(false)
	}
	return cfg
}

func sortedKeys(m map[uint32]bool) []uint32 {
	ks := make([]uint32, 0, len(m))
	for k := range m {
		ks = append(ks, k)
	}
	sort.Slice(ks, func(a, b int) bool { return ks[a] < ks[b] })
	return ks
}

func readAll(db *cesium.DB, c tcase, keys []uint32) map[string]chObs {
	out := map[string]chObs{}
	for _, k := range keys {
		ks := strconv.Itoa(int(k))
		full, st := readVals(db, k, telem.TimeRangeMax)
		o := chObs{St: st, Full: full, Nar: [][]int64{}}
		if st == "ok" {
			for _, s := range c.Probes[ks] {
				v, st2 := readVals(db, k, telem.TimeRange{Start: telem.TimeStamp(s), End: telem.TimeStamp(s + 1)})
				if st2 != "ok" {
					v = []int64{-9}
				}
				o.Nar = append(o.Nar, v)
			}
		}
		out[ks] = o
	}
	return out
}

// evalCesium reopens the image through the public API, reads, runs the follow-up.
func evalCesium(c tcase, mem *xfs.MemFS, keys []uint32, isIndex map[uint32]bool, o *obs) {
	db, err := cesium.Open(ctx, "", cesiumOpts(c, mem)...)
	if err != nil {
		o.Open = errStr(err)
		return
	}
	defer func() { _ = db.Close() }()
	o.Ch = readAll(db, c, keys)
	if len(c.Follow) == 0 {
		return
	}
	o.FW = []string{}
	for _, g := range c.Follow {
		all := true
		for _, k := range g.Keys {
			if o.Ch[strconv.Itoa(int(k))].St == "absent" {
				all = false
			}
		}
		if !all {
			o.FW = append(o.FW, "skip")
			continue
		}
		w, err := db.OpenWriter(ctx, writerCfg(g.Keys, g.Start, "always"))
		if err != nil {
			o.FW = append(o.FW, "open:"+errStr(err))
			continue
		}
		_, err = w.Write(frameFor(g.Keys, isIndex, []int64{g.Start, g.Start + 8}))
		e2 := w.Close()
		if err == nil {
			err = e2
		}
		o.FW = append(o.FW, errStr(err))
	}
	o.Ch2 = readAll(db, c, keys)
	o.Ov = map[string][]bool{}
	for _, k := range keys {
		ks := strconv.Itoa(int(k))
		if o.Ch2[ks].St == "absent" {
			continue
		}
		res := []bool{}
		for _, s := range c.Probes[ks] {
			cfg := writerCfg([]uint32{k}, s, "manual")
			cfg.ErrOnUnauthorized = new(true)
			w, err := db.OpenWriter(ctx, cfg)
			if err == nil {
				_ = w.Close()
			}
			res = append(res, err != nil)
		}
		o.Ov[ks] = res
	}
}

func domList(d *domain.DB) []domEntry {
	out := []domEntry{}
	it := d.OpenIterator(domain.IterRange(telem.TimeRangeMax))
	defer func() { _ = it.Close() }()
	for ok := it.SeekFirst(ctx); ok; ok = it.Next() {
		tr := it.TimeRange()
		e := domEntry{S: int64(tr.Start), E: int64(tr.End)}
		r, err := it.OpenReader(ctx)
		var buf []byte
		if err != nil {
			e.D = "!open: " + errStr(err)
		} else {
			if r.Size() > 1<<24 {
				// a garbage pointer of a torn image: no file of a case is that large
				e.D = "!read: size beyond any file"
			} else {
				buf = make([]byte, int(r.Size()))
				if len(buf) > 0 {
					if _, err = r.ReadAt(buf, 0); err != nil {
						e.D = "!read: " + errStr(err)
					}
				}
			}
			if e.D == "" {
				e.D = hex.EncodeToString(buf)
			}
			_ = r.Close()
		}
		out = append(out, e)
		if len(out) > 200 {
			break
		}
	}
	return out
}

func domProbes(d *domain.DB, stamps []int64) []domProbe {
	out := []domProbe{}
	for _, s := range stamps {
		p := domProbe{}
		w, err := d.OpenWriter(ctx, domain.WriterConfig{Start: telem.TimeStamp(s), EnableAutoCommit: new(false)})
		if err != nil {
			p.Conflict = true
		} else {
			_ = w.Close()
		}
		it := d.OpenIterator(domain.IterRange(telem.TimeRangeMax))
		if it.SeekLE(ctx, telem.TimeStamp(s)) && it.TimeRange().ContainsStamp(telem.TimeStamp(s)) {
			p.Found = true
			p.S, p.E = int64(it.TimeRange().Start), int64(it.TimeRange().End)
		}
		_ = it.Close()
		out = append(out, p)
	}
	return out
}

// evalDomain reopens every channel directory of the image with domain.Open (what
// unary.Open does after meta.Open), lists domains + bytes, probes, runs a domain-level
// follow-up write and lists/probes again.
func evalDomain(c tcase, mem *xfs.MemFS, keys []uint32, o *obs) {
	o.Dom = map[string]*domObs{}
	for _, k := range keys {
		ks := strconv.Itoa(int(k))
		if ex, _ := mem.Exists(ks); !ex {
			continue
		}
		sub, err := mem.Sub(ks)
		if err != nil {
			continue
		}
		do := &domObs{List: []domEntry{}, Probe: []domProbe{}, List2: []domEntry{}, Probe2: []domProbe{}}
		o.Dom[ks] = do
		d, err := domain.Open(domain.Config{FS: sub, FileSize: telem.Size(c.Cap), GCThreshold: c.Thr})
		if err != nil {
			do.Open = errStr(err)
			continue
		}
		do.List = domList(d)
		do.Probe = domProbes(d, c.Probes[ks])
		if c.DFollow > 0 {
			w, err := d.OpenWriter(ctx, domain.WriterConfig{Start: telem.TimeStamp(c.DFollow), EnableAutoCommit: new(false)})
			if err != nil {
				do.FW = "open:" + errStr(err)
			} else {
				_, err = w.Write([]byte{0xF0, 0xF1, 0xF2, 0xF3, 0xF4, 0xF5, 0xF6, 0xF7})
				if err == nil {
					err = w.Commit(ctx, telem.TimeStamp(c.DFollow+10))
				}
				e2 := w.Close()
				if err == nil {
					err = e2
				}
				do.FW = errStr(err)
			}
			do.List2 = domList(d)
			do.Probe2 = domProbes(d, c.Probes[ks])
		}
		_ = d.Close()
	}
}

func tornPoints(o fsop, mode string) []int {
	n := len(o.raw)
	if (o.K != "write" && o.K != "writeat") || n < 2 || mode == "none" || mode == "" {
		return nil
	}
	if mode == "all" {
		out := make([]int, 0, n-1)
		for t := 1; t < n; t++ {
			out = append(out, t)
		}
		return out
	}
	set := map[int]bool{1: true, n / 2: true, n - 1: true}
	if strings.HasSuffix(o.P, "index.domain") && n >= 26 {
		last := n - 26
		for _, t := range []int{last, last + 4, last + 9, last + 17, last + 20, last + 23} {
			set[t] = true
		}
		if n >= 52 {
			set[n-52+9] = true
		}
	}
	out := []int{}
	for t := range set {
		if t >= 1 && t < n {
			out = append(out, t)
		}
	}
	sort.Ints(out)
	return out
}

func runCase(c tcase) (res result) {
	res.ID = c.ID
	res.Errs = []string{}
	res.Bounds = []int{}
	res.Imgs = []img{}
	res.Obs = []obs{}
	res.Live = []map[string][]int64{}
	defer func() {
		if r := recover(); r != nil {
			s := fmt.Sprint(r)
			res.Panic = &s
		}
	}()
	r := &rec{mem: xfs.NewMem()}
	root := &recFS{r: r}
	db, err := cesium.Open(ctx, "", cesiumOpts(c, root)...)
	if err != nil {
		s := "open: " + err.Error()
		res.Panic = &s
		return
	}
	isIndex := map[uint32]bool{}
	created := map[uint32]bool{}
	writers := map[int]*cesium.Writer{}
	wkeys := map[int][]uint32{}
	for _, o := range c.Ops {
		var e error
		switch o.Op {
		case "create":
			ch := cesium.Channel{Key: o.Key, Name: "c" + strconv.Itoa(int(o.Key))}
			if o.Index == 0 {
				ch.IsIndex, ch.DataType = true, telem.TimeStampT
				isIndex[o.Key] = true
			} else {
				ch.Index, ch.DataType = o.Index, telem.Int64T
			}
			e = db.CreateChannel(ctx, ch)
			created[o.Key] = true
		case "open":
			var w *cesium.Writer
			w, e = db.OpenWriter(ctx, writerCfg(o.Keys, o.Start, o.Mode))
			if e == nil {
				writers[o.W] = w
				wkeys[o.W] = o.Keys
			}
		case "write":
			if w := writers[o.W]; w != nil {
				if o.Fault != nil {
					r.mu.Lock()
					r.armed, r.fired = o.Fault, 0
					r.mu.Unlock()
				}
				_, e = w.Write(frameFor(wkeys[o.W], isIndex, o.Stamps))
				if o.Fault != nil {
					r.mu.Lock()
					fired := r.fired
					r.armed = nil
					r.mu.Unlock()
					if fired != 1 {
						e = nil // shows as a missing error: the scripted fault did not fire
					}
					// cesium.Writer closes itself on the first error it reports
					_ = w.Close()
					delete(writers, o.W)
				}
			} else {
				e = fmt.Errorf("no writer")
			}
		case "commit":
			if w := writers[o.W]; w != nil {
				_, e = w.Commit()
			} else {
				e = fmt.Errorf("no writer")
			}
		case "close":
			if w := writers[o.W]; w != nil {
				e = w.Close()
				delete(writers, o.W)
			}
		case "delete":
			e = db.DeleteTimeRange(ctx, o.Keys, telem.TimeRange{Start: telem.TimeStamp(o.A), End: telem.TimeStamp(o.B)})
		case "gc":
			e = db.VerifC02GC(ctx)
		case "delchan":
			if o.Single && len(o.Keys) == 1 {
				e = db.DeleteChannel(o.Keys[0])
			} else {
				e = db.DeleteChannels(o.Keys)
			}
		case "reopen":
			for k, w := range writers {
				_ = w.Close()
				delete(writers, k)
			}
			e = db.Close()
			if e == nil {
				db, e = cesium.Open(ctx, "", cesiumOpts(c, root)...)
				if e != nil {
					s := "reopen: " + e.Error()
					res.Panic = &s
					return
				}
			}
		default:
			e = fmt.Errorf("unknown op %s", o.Op)
		}
		res.Errs = append(res.Errs, errStr(e))
		r.mu.Lock()
		res.Bounds = append(res.Bounds, len(r.log))
		r.mu.Unlock()
	}
	// the script ends here: calls issued by the clean-up below are not part of the case
	r.mu.Lock()
	log := append([]fsop(nil), r.log...)
	r.mu.Unlock()
	for _, w := range writers {
		_ = w.Close()
	}
	_ = db.Close()
	for i := range log {
		if log[i].raw != nil {
			log[i].D = hex.EncodeToString(log[i].raw)
		}
	}
	res.Log = log
	if c.NoImgs {
		return
	}
	keys := sortedKeys(created)
	seen := map[string]int{}
	lo, hi := 0, len(log)
	if len(c.Focus) == 2 {
		lo, hi = c.Focus[0], c.Focus[1]
		if hi > len(log) {
			hi = len(log)
		}
	}
	one := func(k, t int) {
		var o obs
		evalCesium(c, materialise(log, k, t), keys, isIndex, &o)
		evalDomain(c, materialise(log, k, t), keys, &o)
		b, _ := json.Marshal(o)
		idx, ok := seen[string(b)]
		if !ok {
			idx = len(res.Obs)
			seen[string(b)] = idx
			res.Obs = append(res.Obs, o)
		}
		res.Imgs = append(res.Imgs, img{K: k, T: t, O: idx})
	}
	for k := lo; k <= hi; k++ {
		if c.Only != "torn" {
			one(k, 0)
		}
		if k < len(log) && (k < hi || c.Only == "torn") && c.Only != "plain" {
			for _, t := range tornPoints(log[k], c.Torn) {
				one(k, t)
			}
		}
	}
	return
}

func main() {
	in := bufio.NewReaderSize(os.Stdin, 1<<20)
	out := bufio.NewWriterSize(os.Stdout, 1<<20)
	defer out.Flush()
	for {
		line, err := in.ReadBytes('\n')
		if len(strings.TrimSpace(string(line))) > 0 {
			var c tcase
			if e := json.Unmarshal(line, &c); e != nil {
				fmt.Fprintf(out, "{\"id\":-1,\"panic\":%q}\n", e.Error())
			} else {
				b, _ := json.Marshal(runCase(c))
				out.Write(b)
				out.WriteByte('\n')
				out.Flush()
			}
		}
		if err != nil {
			return
		}
	}
}
