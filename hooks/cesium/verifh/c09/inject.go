//go:build verif

package main

import (
	"context"
	"fmt"
	"io"
	"os"
	"runtime"
	"sort"
	"sync"
	"time"

	"github.com/synnaxlabs/cesium"
	"github.com/synnaxlabs/cesium/internal/domain"
	xfs "github.com/synnaxlabs/x/io/fs"
	"github.com/synnaxlabs/x/telem"
)

// injector fires a callback (thread B) when thread A reaches its target-th I/O point
// (any file-system call, or a delete offset resolver), waits briefly for B — B may be
// blocked on a lock A holds — and lets A continue.
type injector struct {
	mu     sync.Mutex
	count  int
	target int
	active bool
	fired  bool
	fire   func()
	done   chan struct{}
	fault  bool // fault mode: the target-th file-system call fails once instead of firing thread B
}

var errInjected = fmt.Errorf("injected I/O error")

// point returns true when the calling file-system operation must fail (fault mode).
func (in *injector) point() bool {
	in.mu.Lock()
	if !in.active {
		in.mu.Unlock()
		return false
	}
	c := in.count
	in.count++
	if in.fault {
		hit := c == in.target && !in.fired
		if hit {
			in.fired = true
		}
		in.mu.Unlock()
		return hit
	}
	should := c == in.target && !in.fired && in.fire != nil
	if should {
		in.fired = true
		in.done = make(chan struct{})
	}
	in.mu.Unlock()
	if should {
		go func() { defer close(in.done); in.fire() }()
		select {
		case <-in.done:
		case <-time.After(25 * time.Millisecond):
		}
	}
	return false
}

type hookFS struct {
	xfs.FS
	in *injector
}

type hookFile struct {
	xfs.File
	in *injector
}

func (h hookFS) Open(name string, flag int) (xfs.File, error) {
	if h.in.point() {
		return nil, errInjected
	}
	f, err := h.FS.Open(name, flag)
	if err != nil {
		return f, err
	}
	return hookFile{File: f, in: h.in}, nil
}
func (h hookFS) Sub(name string) (xfs.FS, error) {
	s, err := h.FS.Sub(name)
	if err != nil {
		return s, err
	}
	return hookFS{FS: s, in: h.in}, nil
}
func (h hookFS) List(n string) ([]xfs.FileInfo, error) {
	if h.in.point() {
		return nil, errInjected
	}
	return h.FS.List(n)
}
func (h hookFS) Exists(n string) (bool, error) {
	if h.in.point() {
		return false, errInjected
	}
	return h.FS.Exists(n)
}
func (h hookFS) Remove(n string) error {
	if h.in.point() {
		return errInjected
	}
	return h.FS.Remove(n)
}
func (h hookFS) Rename(a, b string) error {
	if h.in.point() {
		return errInjected
	}
	return h.FS.Rename(a, b)
}
func (h hookFS) Stat(n string) (xfs.FileInfo, error) {
	if h.in.point() {
		return nil, errInjected
	}
	return h.FS.Stat(n)
}

func (f hookFile) Read(p []byte) (int, error) {
	if f.in.point() {
		return 0, errInjected
	}
	return f.File.Read(p)
}
func (f hookFile) ReadAt(p []byte, o int64) (int, error) {
	if f.in.point() {
		return 0, errInjected
	}
	return f.File.ReadAt(p, o)
}
func (f hookFile) Write(p []byte) (int, error) {
	if f.in.point() {
		return 0, errInjected
	}
	return f.File.Write(p)
}
func (f hookFile) WriteAt(p []byte, o int64) (int, error) {
	if f.in.point() {
		return 0, errInjected
	}
	return f.File.WriteAt(p, o)
}
func (f hookFile) Truncate(n int64) error {
	if f.in.point() {
		return errInjected
	}
	return f.File.Truncate(n)
}
func (f hookFile) Close() error {
	// a failed Close would leak the underlying handle of the in-memory FS: count the point, never fail it
	f.in.point()
	return f.File.Close()
}

var _ io.ReaderAt = hookFile{}

// ---------------------------------------------------------------- cesium level
func runCesiumInject(c tcase, target int, serialSkip [][]bool, serial bool) (obs runObs, points int) {
	ctx := context.Background()
	in := &injector{target: target, fault: c.Mode == "fault"}
	fs := hookFS{FS: xfs.NewMem(), in: in}
	c2 := c
	c2.GC = false
	db, err := openDB(fs, c2)
	if err != nil {
		obs.Err = "open: " + err.Error()
		return
	}
	for g := 1; g <= c.Groups; g++ {
		if err := db.CreateChannel(ctx,
			cesium.Channel{Key: idxKey(uint32(g)), Name: fmt.Sprintf("i%d", g), IsIndex: true, DataType: telem.TimeStampT},
			cesium.Channel{Key: dataKey(uint32(g)), Name: fmt.Sprintf("d%d", g), Index: idxKey(uint32(g)), DataType: telem.Int64T},
		); err != nil {
			obs.Err = "create: " + err.Error()
			return
		}
	}
	for _, o := range c.Setup {
		obs.Setup = append(obs.Setup, classify(doOp(ctx, db, c, o)))
	}
	obs.Outcomes = make([][]string, len(c.Threads))
	pre := preopen(ctx, db, c, serialSkip)
	var pmu sync.Mutex
	runThread := func(ti int) {
		defer func() {
			if r := recover(); r != nil {
				pmu.Lock()
				obs.Panic = fmt.Sprint(r)
				pmu.Unlock()
			}
		}()
		outs := []string{}
		for oi, o := range c.Threads[ti] {
			if serialSkip != nil && serialSkip[ti][oi] {
				outs = append(outs, "skipped")
				continue
			}
			e := doOpW(ctx, db, c, o, pre[[2]int{ti, oi}])
			if e != nil {
				pmu.Lock()
				obs.Msgs = append(obs.Msgs, fmt.Sprintf("t%d.%d %s: %v", ti, oi, o.Op, e))
				pmu.Unlock()
			}
			outs = append(outs, classify(e))
		}
		pmu.Lock()
		obs.Outcomes[ti] = outs
		pmu.Unlock()
	}
	if serial {
		for ti := range c.Threads {
			runThread(ti)
		}
	} else {
		in.fire = func() {
			for ti := 1; ti < len(c.Threads); ti++ {
				runThread(ti)
			}
		}
		in.mu.Lock()
		in.active = true
		in.mu.Unlock()
		adone := make(chan struct{})
		go func() { defer close(adone); runThread(0) }()
		select {
		case <-adone:
		case <-watchdog(90 * time.Second):
			obs.Stall = true
			return
		}
		in.mu.Lock()
		in.active = false
		fired, done := in.fired, in.done
		points = in.count
		in.mu.Unlock()
		if in.fault {
			// the other threads run after the faulted one: nothing may hang on a lock it leaked
			fired = false
		}
		if fired {
			select {
			case <-done:
			case <-watchdog(90 * time.Second):
				obs.Stall = true
				return
			}
		} else {
			in.fire()
		}
	}
	obs.Mem = observe(ctx, db, c)
	if err := db.Close(); err != nil {
		obs.Err = "close: " + err.Error()
		return
	}
	db2, err := openDB(fs, c2)
	if err != nil {
		obs.Err = "reopen: " + err.Error()
		return
	}
	obs.Reopen = observe(ctx, db2, c)
	if err := db2.Close(); err != nil {
		obs.Err = "close2: " + err.Error()
	}
	return
}

// ---------------------------------------------------------------- domain level
const domKey = 5000

func dbyte(ts int64) byte { return byte((ts*7 + 3) % 251) }

func domObserve(ctx context.Context, db *domain.DB) []chanObs {
	co := chanObs{Key: domKey, Ranges: [][2]int64{}, Vals: []int64{}}
	it := db.OpenIterator(domain.IterRange(telem.TimeRangeMax))
	defer it.Close()
	for ok := it.SeekFirst(ctx); ok; ok = it.Next() {
		tr := it.TimeRange()
		r, err := it.OpenReader(ctx)
		if err != nil {
			co.Ranges = append(co.Ranges, [2]int64{-2, -2})
			return []chanObs{co}
		}
		buf := make([]byte, it.Size())
		if _, err := r.ReadAt(buf, 0); err != nil && err != io.EOF {
			_ = r.Close()
			co.Ranges = append([][2]int64{{-2, -2}}, co.Ranges...)
			return []chanObs{co}
		}
		_ = r.Close()
		co.Ranges = append(co.Ranges, [2]int64{int64(tr.Start), int64(tr.End)})
		for i, b := range buf {
			ts := int64(tr.Start) + int64(i)
			if b != dbyte(ts) {
				// bytes that were never written for that stamp: report as corrupt
				co.Ranges = append([][2]int64{{-2, -2}}, co.Ranges...)
				return []chanObs{co}
			}
			co.Vals = append(co.Vals, ts)
		}
	}
	return []chanObs{co}
}

func domResolver(in *injector) domain.OffsetResolver {
	return func(_ context.Context, domainStart telem.TimeStamp, ts telem.TimeStamp) (telem.Size, telem.TimeStamp, error) {
		if in != nil && in.point() {
			return 0, ts, errInjected
		}
		return telem.Size(ts - domainStart), ts, nil
	}
}

func domOp(ctx context.Context, db *domain.DB, c tcase, o op, in *injector) error {
	switch o.Op {
	case "dwrite":
		cfg := domain.WriterConfig{Start: telem.TimeStamp(o.Start), End: telem.TimeStamp(o.Start + int64(o.N))}
		if o.NoEnd {
			// no preset end: OpenWriter bounds the writer by the next domain (index.getGE), Commit names the end
			cfg.End = 0
		}
		if c.Persist == "always" {
			cfg.AutoIndexPersistInterval = domain.AlwaysIndexPersistOnAutoCommit
		}
		w, err := db.OpenWriter(ctx, cfg)
		if err != nil {
			return err
		}
		chunks := o.Chunks
		if chunks < 1 {
			chunks = 1
		}
		per := (o.N + chunks - 1) / chunks
		var werr error
		for i := 0; i < o.N && werr == nil; i += per {
			n := per
			if i+n > o.N {
				n = o.N - i
			}
			bs := make([]byte, n)
			for j := range bs {
				bs[j] = dbyte(o.Start + int64(i+j))
			}
			if _, werr = w.Write(bs); werr != nil {
				break
			}
			if o.Commits == "each" {
				werr = w.Commit(ctx, telem.TimeStamp(o.Start+int64(i+n)))
			}
		}
		if werr == nil && o.Commits != "each" {
			werr = w.Commit(ctx, telem.TimeStamp(o.Start+int64(o.N)))
		}
		cerr := w.Close()
		if werr != nil {
			return werr
		}
		return cerr
	case "ddelete":
		return db.Delete(ctx, telem.TimeRange{Start: telem.TimeStamp(o.A), End: telem.TimeStamp(o.B)}, domResolver(in), domResolver(in))
	case "dgc":
		return db.GarbageCollect(ctx)
	case "dread":
		_ = domObserve(ctx, db)
		return nil
	}
	return fmt.Errorf("unknown domain op %q", o.Op)
}

func openDomain(fs xfs.FS, c tcase) (*domain.DB, error) {
	cfg := domain.Config{FS: fs, GCThreshold: 0.0001}
	if c.FileCap > 0 {
		cfg.FileSize = telem.Size(c.FileCap)
	}
	return domain.Open(cfg)
}

func runDomainInject(c tcase, target int, serialSkip [][]bool, serial bool) (obs runObs, points int) {
	ctx := context.Background()
	in := &injector{target: target, fault: c.Mode == "fault"}
	fs := hookFS{FS: xfs.NewMem(), in: in}
	db, err := openDomain(fs, c)
	if err != nil {
		obs.Err = "open: " + err.Error()
		return
	}
	for _, o := range c.Setup {
		obs.Setup = append(obs.Setup, classify(domOp(ctx, db, c, o, nil)))
	}
	obs.Outcomes = make([][]string, len(c.Threads))
	var pmu sync.Mutex
	runThread := func(ti int, hooked bool) {
		defer func() {
			if r := recover(); r != nil {
				pmu.Lock()
				obs.Panic = fmt.Sprint(r)
				pmu.Unlock()
			}
		}()
		outs := []string{}
		for oi, o := range c.Threads[ti] {
			if serialSkip != nil && serialSkip[ti][oi] {
				outs = append(outs, "skipped")
				continue
			}
			var hi *injector
			if hooked {
				hi = in
			}
			e := domOp(ctx, db, c, o, hi)
			if e != nil {
				pmu.Lock()
				obs.Msgs = append(obs.Msgs, fmt.Sprintf("t%d.%d %s: %v", ti, oi, o.Op, e))
				pmu.Unlock()
			}
			outs = append(outs, classify(e))
		}
		pmu.Lock()
		obs.Outcomes[ti] = outs
		pmu.Unlock()
	}
	if serial {
		for ti := range c.Threads {
			runThread(ti, false)
		}
	} else {
		in.fire = func() {
			for ti := 1; ti < len(c.Threads); ti++ {
				runThread(ti, false)
			}
		}
		in.mu.Lock()
		in.active = true
		in.mu.Unlock()
		adone := make(chan struct{})
		go func() { defer close(adone); runThread(0, true) }()
		select {
		case <-adone:
		case <-watchdog(90 * time.Second):
			obs.Stall = true
			return
		}
		in.mu.Lock()
		in.active = false
		fired, done := in.fired, in.done
		points = in.count
		in.mu.Unlock()
		if in.fault {
			// the other threads run after the faulted one: nothing may hang on a lock it leaked
			fired = false
		}
		if fired {
			select {
			case <-done:
			case <-watchdog(90 * time.Second):
				obs.Stall = true
				return
			}
		} else {
			in.fire()
		}
	}
	obs.Mem = domObserve(ctx, db)
	if err := db.Close(); err != nil {
		obs.Err = "close: " + err.Error()
		return
	}
	db2, err := openDomain(fs, c)
	if err != nil {
		obs.Err = "reopen: " + err.Error()
		return
	}
	obs.Reopen = domObserve(ctx, db2)
	if err := db2.Close(); err != nil {
		obs.Err = "close2: " + err.Error()
	}
	return
}

// runDomainFree: the scenario's threads run as free goroutines on a bare domain.DB (no injection),
// released together with a small per-thread skew of runtime.Gosched calls.
func runDomainFree(c tcase, skew int) (obs runObs) {
	ctx := context.Background()
	fs := xfs.NewMem()
	db, err := openDomain(fs, c)
	if err != nil {
		obs.Err = "open: " + err.Error()
		return
	}
	for _, o := range c.Setup {
		obs.Setup = append(obs.Setup, classify(domOp(ctx, db, c, o, nil)))
	}
	obs.Outcomes = make([][]string, len(c.Threads))
	var pmu sync.Mutex
	var wg sync.WaitGroup
	start := make(chan struct{})
	for ti := range c.Threads {
		wg.Add(1)
		go func(ti int) {
			defer wg.Done()
			defer func() {
				if r := recover(); r != nil {
					pmu.Lock()
					obs.Panic = fmt.Sprint(r)
					pmu.Unlock()
				}
			}()
			<-start
			for k := 0; k < (skew>>(3*uint(ti)))&7; k++ {
				runtime.Gosched()
			}
			outs := []string{}
			for _, o := range c.Threads[ti] {
				outs = append(outs, classify(domOp(ctx, db, c, o, nil)))
			}
			pmu.Lock()
			obs.Outcomes[ti] = outs
			pmu.Unlock()
		}(ti)
	}
	close(start)
	done := make(chan struct{})
	go func() { wg.Wait(); close(done) }()
	select {
	case <-done:
	case <-watchdog(90 * time.Second):
		obs.Stall = true
		return
	}
	obs.Mem = domObserve(ctx, db)
	if err := db.Close(); err != nil {
		obs.Err = "close: " + err.Error()
		return
	}
	db2, err := openDomain(fs, c)
	if err != nil {
		obs.Err = "reopen: " + err.Error()
		return
	}
	obs.Reopen = domObserve(ctx, db2)
	if err := db2.Close(); err != nil {
		obs.Err = "close2: " + err.Error()
	}
	return
}

// runStressCase: the scenario (pairwise independent operations, every one expected to succeed) is
// repeated c.Iters times with free-running threads; the run stops at the first repetition whose
// outcome (operation results, content in memory, content after close + reopen) is not the serial one.
func runStressCase(c tcase) result {
	r := result{ID: c.ID}
	r.Serial, _ = runDomainInject(c, -1, nil, true)
	r.Order = []int{0, 1}
	for it := 0; it < c.Iters; it++ {
		r.Conc = runDomainFree(c, it)
		r.Iters = it + 1
		if r.Conc.Stall || r.Conc.Panic != "" || r.Conc.Err != "" || !serialExplains(r.Conc, r.Serial) ||
			!sameObs(r.Conc.Mem, r.Conc.Reopen) {
			break
		}
	}
	return r
}

// runFaultCase: thread A runs with ONE injected I/O error (its target-th file-system call or delete offset
// resolver fails once), then the other threads run, the content is read, the database is closed and reopened.
// Whatever the failed operation left behind, nothing may hang (a lock leaked on the error path) or panic.
func runFaultCase(c tcase) result {
	r := result{ID: c.ID}
	run := runCesiumInject
	if c.Level == "domain" {
		run = runDomainInject
	}
	_, points := run(c, -1, nil, false)
	target := 0
	if points > 0 {
		target = int(c.KFrac * float64(points))
		if target >= points {
			target = points - 1
		}
	}
	r.Points, r.Target = points, target
	done := make(chan runObs, 1)
	go func() {
		o, _ := run(c, target, nil, false)
		done <- o
	}()
	select {
	case o := <-done:
		r.Conc = o
	case <-watchdog(40 * time.Second):
		r.Conc.Stall = true
		buf := make([]byte, 1<<20)
		n := runtime.Stack(buf, true)
		fmt.Fprintf(os.Stderr, "STALL (fault) case %d\n%s\n", c.ID, buf[:n])
	}
	r.Serial = r.Conc
	r.Order = []int{0, 1}
	return r
}

// runInjectCase: dry run to count thread A's I/O points, injected run at floor(kfrac*points),
// serial reference of the operations that reported success.
func runInjectCase(c tcase) result {
	r := result{ID: c.ID}
	run := runCesiumInject
	if c.Level == "domain" {
		run = runDomainInject
	}
	_, points := run(c, -1, nil, false)
	target := 0
	if points > 0 {
		target = int(c.KFrac * float64(points))
		if target >= points {
			target = points - 1
		}
	}
	r.Conc, _ = run(c, target, nil, false)
	r.Points, r.Target = points, target
	skip := make([][]bool, len(c.Threads))
	for ti := range c.Threads {
		skip[ti] = make([]bool, len(c.Threads[ti]))
		for oi := range c.Threads[ti] {
			if ti < len(r.Conc.Outcomes) && oi < len(r.Conc.Outcomes[ti]) && r.Conc.Outcomes[ti][oi] != "ok" {
				skip[ti][oi] = true
			}
		}
	}
	// SOME serial order must explain the run: try A;B then B;A (the scenario may be a deliberate conflict)
	r.Serial, _ = run(c, -1, skip, true)
	r.Order = []int{0, 1}
	if !serialExplains(r.Conc, r.Serial) && len(c.Threads) == 2 {
		c2 := c
		c2.Threads = [][]op{c.Threads[1], c.Threads[0]}
		skip2 := [][]bool{skip[1], skip[0]}
		so, _ := run(c2, -1, skip2, true)
		so.Outcomes = [][]string{so.Outcomes[1], so.Outcomes[0]}
		if serialExplains(r.Conc, so) {
			r.Serial = so
			r.Order = []int{1, 0}
		}
	}
	sort.Strings(r.Conc.Msgs)
	return r
}
