//go:build verif

// Command c09 runs scripted threads against one cesium.DB concurrently and, on a fresh DB,
// serially; it reports the content readable afterwards (in memory and after close+reopen)
// for both, per-op outcomes, panics and stalls. Built with and without -race.
package main

import (
	"bufio"
	"context"
	"encoding/binary"
	"encoding/json"
	"fmt"
	"os"
	"runtime"
	"sort"
	"sync"
	"sync/atomic"
	"time"

	"github.com/synnaxlabs/cesium"
	xfs "github.com/synnaxlabs/x/io/fs"
	"github.com/synnaxlabs/x/confluence"
	"github.com/synnaxlabs/x/signal"
	"github.com/synnaxlabs/x/telem"
)

type op struct {
	Op      string `json:"op"`
	G       uint32 `json:"g"`
	Start   int64  `json:"start"`
	N       int    `json:"n"`
	Step    int64  `json:"step"`
	Chunks  int    `json:"chunks"`
	Commits string `json:"commits"` // "each" | "end"
	A       int64  `json:"a"`
	B       int64  `json:"b"`
	Index   bool   `json:"index"` // delete: include the index channel
	Only    string `json:"only"`  // write/delete: "" (index+data) | "index" | "data"
	Key     uint32 `json:"key"`   // create / delchan
	M       int    `json:"m"`
	Pre     bool   `json:"pre"` // write: the writer is opened before the threads start (long-lived writer)
	NoEnd   bool   `json:"noend"` // dwrite: the writer has no preset end
}

type tcase struct {
	ID      int    `json:"id"`
	Procs   int    `json:"procs"`
	Persist string `json:"persist"` // "always" | "lazy"
	GC      bool   `json:"gc"`
	FileCap int64  `json:"filecap"`
	Groups  int    `json:"groups"`
	Setup   []op   `json:"setup"`
	Threads [][]op `json:"threads"`
	Mode    string  `json:"mode"`  // "" (free-running goroutines) | "inject"
	Level   string  `json:"level"` // "cesium" | "domain"
	KFrac   float64 `json:"kfrac"`
	Iters   int     `json:"iters"` // mode "stress": number of free-running repetitions of the scenario
}

type chanObs struct {
	Key    uint32   `json:"key"`
	Ranges [][2]int64 `json:"ranges"`
	Vals   []int64  `json:"vals"`
}

type runObs struct {
	Msgs     []string   `json:"msgs"`
	Outcomes [][]string `json:"outcomes"` // per thread per op: "ok" | error class
	Setup    []string   `json:"setup"`
	Mem      []chanObs  `json:"mem"`
	Reopen   []chanObs  `json:"reopen"`
	Stall    bool       `json:"stall"`
	Panic    string     `json:"panic"`
	Err      string     `json:"err"`
}

type result struct {
	ID     int    `json:"id"`
	Conc   runObs `json:"conc"`
	Serial runObs `json:"serial"`
	Points int    `json:"points"`
	Target int    `json:"target"`
	Order  []int  `json:"order"` // serial thread order whose outcome is reported in Serial
	Iters  int    `json:"iters"` // mode "stress": repetitions executed (stops at the first discrepancy)
}

// ---- watchdog that tells a stuck case from a starved process
// A heartbeat goroutine ticks every 10 ms. A watchdog fires after d only if the heartbeat kept ticking at (at least)
// half the nominal rate during its last window: when the whole process is starved of CPU (an overloaded machine) the
// wait is extended, window by window, up to 5 windows; [starved] records that this happened.
var (
	beats   atomic.Int64
	starved atomic.Bool
)

func startHeartbeat() {
	go func() {
		for {
			time.Sleep(10 * time.Millisecond)
			beats.Add(1)
		}
	}()
}

func watchdog(d time.Duration) <-chan struct{} {
	ch := make(chan struct{})
	go func() {
		for i := 0; i < 5; i++ {
			b0 := beats.Load()
			time.Sleep(d)
			got := beats.Load() - b0
			want := int64(d / (10 * time.Millisecond))
			if got*2 >= want {
				break // the process was running: whoever is still waiting is genuinely stuck
			}
			starved.Store(true)
		}
		close(ch)
	}()
	return ch
}

func idxKey(g uint32) uint32  { return g*10 + 1 }
func dataKey(g uint32) uint32 { return g*10 + 2 }

func enc(g uint32, ts int64) int64 { return int64(g)*1_000_000_007 + ts*3 + 1 }

func classify(err error) string {
	if err == nil {
		return "ok"
	}
	return "err"
}

func openDB(fs xfs.FS, c tcase) (*cesium.DB, error) {
	opts := []cesium.Option{cesium.WithFS(fs)}
	if c.FileCap > 0 {
		opts = append(opts, cesium.WithFileSizeCap(telem.Size(c.FileCap)))
	}
	if c.GC {
		opts = append(opts, cesium.WithGCConfig(cesium.GCConfig{MaxGoroutine: 4, TryInterval: 3 * time.Millisecond, Threshold: 0.0001}))
	} else if c.Mode == "inject" {
		// explicit "gc" ops only, but with a threshold that lets them collect
		opts = append(opts, cesium.WithGCConfig(cesium.GCConfig{MaxGoroutine: 4, TryInterval: time.Hour, Threshold: 0.0001}))
	}
	return cesium.Open(context.Background(), "db", opts...)
}

func writerCfg(c tcase, o op) (cesium.WriterConfig, []cesium.ChannelKey) {
	keys := []cesium.ChannelKey{idxKey(o.G), dataKey(o.G)}
	if o.Only == "index" {
		keys = keys[:1]
	} else if o.Only == "data" {
		keys = keys[1:]
	}
	cfg := cesium.WriterConfig{
		Channels: keys,
		Start:    telem.TimeStamp(o.Start),
	}
	t, f := true, false
	if o.Commits == "auto" {
		cfg.EnableAutoCommit = &t
	} else {
		cfg.EnableAutoCommit = &f
	}
	if c.Persist == "always" {
		cfg.AutoIndexPersistInterval = cesium.AlwaysIndexPersistOnAutoCommit
	}
	return cfg, keys
}

type preWriter struct {
	w   *cesium.Writer
	err error
}

// preopen opens the writers of the write ops flagged "pre" (not skipped) before any thread runs.
func preopen(ctx context.Context, db *cesium.DB, c tcase, skip [][]bool) map[[2]int]*preWriter {
	pre := map[[2]int]*preWriter{}
	for ti, th := range c.Threads {
		for oi, o := range th {
			if o.Op != "write" || !o.Pre || (skip != nil && skip[ti][oi]) {
				continue
			}
			cfg, _ := writerCfg(c, o)
			w, err := db.OpenWriter(ctx, cfg)
			pre[[2]int{ti, oi}] = &preWriter{w: w, err: err}
		}
	}
	return pre
}

func doOp(ctx context.Context, db *cesium.DB, c tcase, o op) (err error) {
	return doOpW(ctx, db, c, o, nil)
}

func doOpW(ctx context.Context, db *cesium.DB, c tcase, o op, pw *preWriter) (err error) {
	defer func() {
		if r := recover(); r != nil {
			err = fmt.Errorf("panic: %v", r)
			panic(r)
		}
	}()
	switch o.Op {
	case "write":
		cfg, keys := writerCfg(c, o)
		var w *cesium.Writer
		if pw != nil {
			if pw.err != nil {
				return pw.err
			}
			w = pw.w
		} else {
			w, err = db.OpenWriter(ctx, cfg)
			if err != nil {
				return err
			}
		}
		chunks := o.Chunks
		if chunks < 1 {
			chunks = 1
		}
		per := (o.N + chunks - 1) / chunks
		i := 0
		var werr error
		for i < o.N {
			n := per
			if i+n > o.N {
				n = o.N - i
			}
			ts := make([]telem.TimeStamp, n)
			vs := make([]int64, n)
			for j := 0; j < n; j++ {
				s := o.Start + int64(i+j)*o.Step
				ts[j] = telem.TimeStamp(s)
				vs[j] = enc(o.G, s)
			}
			srs := []telem.Series{telem.NewSeriesV(ts...), telem.NewSeriesV(vs...)}
			if o.Only == "index" {
				srs = srs[:1]
			} else if o.Only == "data" {
				srs = srs[1:]
			}
			fr := telem.MultiFrame(keys, srs)
			if _, e := w.Write(fr); e != nil {
				werr = e
				break
			}
			if o.Commits == "each" {
				if _, e := w.Commit(); e != nil {
					werr = e
					break
				}
			}
			i += n
		}
		if werr == nil && o.Commits != "each" && o.Commits != "auto" {
			_, werr = w.Commit()
		}
		cerr := w.Close()
		if werr != nil {
			return werr
		}
		return cerr
	case "delete":
		keys := []cesium.ChannelKey{dataKey(o.G)}
		if o.Index {
			keys = append(keys, idxKey(o.G))
		}
		if o.Only == "index" {
			keys = []cesium.ChannelKey{idxKey(o.G)}
		}
		return db.DeleteTimeRange(ctx, keys, telem.TimeRange{Start: telem.TimeStamp(o.A), End: telem.TimeStamp(o.B)})
	case "read":
		_, err := db.Read(ctx, telem.TimeRange{Start: telem.TimeStamp(o.A), End: telem.TimeStamp(o.B)}, idxKey(o.G), dataKey(o.G))
		return err
	case "iterate":
		it, err := db.OpenIterator(cesium.IteratorConfig{
			Bounds:   telem.TimeRange{Start: telem.TimeStamp(o.A), End: telem.TimeStamp(o.B)},
			Channels: []cesium.ChannelKey{idxKey(o.G), dataKey(o.G)},
		})
		if err != nil {
			return err
		}
		it.SeekFirst()
		for k := 0; k < 50 && it.Next(telem.TimeSpan(o.Step*3+1)); k++ {
			_ = it.Value()
		}
		e1 := it.Error()
		e2 := it.Close()
		if e1 != nil {
			return e1
		}
		return e2
	case "stream":
		sCtx, cancel := signal.Isolated()
		s, err := db.NewStreamer(ctx, cesium.StreamerConfig{Channels: []cesium.ChannelKey{idxKey(o.G), dataKey(o.G)}})
		if err != nil {
			cancel()
			return err
		}
		in, out := confluence.Attach(s, 8)
		s.Flow(sCtx, confluence.CloseOutputInletsOnExit())
		deadline := time.After(time.Duration(o.M) * time.Millisecond)
	loop:
		for {
			select {
			case <-out.Outlet():
			case <-deadline:
				break loop
			}
		}
		in.Close()
		for range out.Outlet() {
		}
		cancel()
		return sCtx.Wait()
	case "create":
		return db.CreateChannel(ctx,
			cesium.Channel{Key: o.Key, Name: fmt.Sprintf("p%d", o.Key), IsIndex: true, DataType: telem.TimeStampT})
	case "pwrite":
		// write to a private index channel created by this thread
		w, err := db.OpenWriter(ctx, cesium.WriterConfig{Channels: []cesium.ChannelKey{o.Key}, Start: telem.TimeStamp(o.Start)})
		if err != nil {
			return err
		}
		ts := make([]telem.TimeStamp, o.N)
		for j := range ts {
			ts[j] = telem.TimeStamp(o.Start + int64(j)*o.Step)
		}
		_, werr := w.Write(telem.MultiFrame([]cesium.ChannelKey{o.Key}, []telem.Series{telem.NewSeriesV(ts...)}))
		if werr == nil {
			_, werr = w.Commit()
		}
		cerr := w.Close()
		if werr != nil {
			return werr
		}
		return cerr
	case "delchan":
		return db.DeleteChannel(o.Key)
	case "gc":
		return db.VerifC09GC(ctx)
	}
	return fmt.Errorf("unknown op %q", o.Op)
}

func allKeys(c tcase) []uint32 {
	m := map[uint32]bool{}
	for g := 1; g <= c.Groups; g++ {
		m[idxKey(uint32(g))] = true
		m[dataKey(uint32(g))] = true
	}
	for _, th := range c.Threads {
		for _, o := range th {
			if o.Op == "create" {
				m[o.Key] = true
			}
		}
	}
	ks := make([]uint32, 0, len(m))
	for k := range m {
		ks = append(ks, k)
	}
	sort.Slice(ks, func(a, b int) bool { return ks[a] < ks[b] })
	return ks
}

func observe(ctx context.Context, db *cesium.DB, c tcase) []chanObs {
	var out []chanObs
	for _, k := range allKeys(c) {
		co := chanObs{Key: k, Ranges: [][2]int64{}, Vals: []int64{}}
		if _, err := db.RetrieveChannel(ctx, k); err != nil {
			co.Ranges = append(co.Ranges, [2]int64{-1, -1}) // channel absent
			out = append(out, co)
			continue
		}
		fr, err := db.Read(ctx, telem.TimeRangeMax, k)
		if err != nil {
			co.Ranges = append(co.Ranges, [2]int64{-2, -2})
			out = append(out, co)
			continue
		}
		for _, s := range fr.SeriesSlice() {
			if s.Len() == 0 {
				continue
			}
			co.Ranges = append(co.Ranges, [2]int64{int64(s.TimeRange.Start), int64(s.TimeRange.End)})
			d := s.Data
			for i := 0; i+8 <= len(d); i += 8 {
				co.Vals = append(co.Vals, int64(binary.LittleEndian.Uint64(d[i:i+8])))
			}
		}
		out = append(out, co)
	}
	return out
}

func runOnce(c tcase, concurrent bool, skip [][]bool, order []int) (obs runObs) {
	ctx := context.Background()
	fs := xfs.NewMem()
	db, err := openDB(fs, c)
	if err != nil {
		obs.Err = "open: " + err.Error()
		return
	}
	for g := 1; g <= c.Groups; g++ {
		if err := db.CreateChannel(ctx,
			cesium.Channel{Key: idxKey(uint32(g)), Name: fmt.Sprintf("i%d", g), IsIndex: true, DataType: telem.TimeStampT},
			cesium.Channel{Key: dataKey(uint32(g)), Name: fmt.Sprintf("d%d", g), Index: idxKey(uint32(g)), DataType: telem.Int64T},
		); err != nil {
			obs.Err = "create: " + err.Error()
			return
		}
	}
	for _, o := range c.Setup {
		obs.Setup = append(obs.Setup, classify(doOp(ctx, db, c, o)))
	}
	obs.Outcomes = make([][]string, len(c.Threads))
	pre := preopen(ctx, db, c, skip)
	var pmu sync.Mutex
	runThread := func(ti int) {
		defer func() {
			if r := recover(); r != nil {
				pmu.Lock()
				obs.Panic = fmt.Sprint(r)
				pmu.Unlock()
			}
		}()
		for oi, o := range c.Threads[ti] {
			if skip != nil && skip[ti][oi] {
				obs.Outcomes[ti] = append(obs.Outcomes[ti], "skipped")
				continue
			}
			e := doOpW(ctx, db, c, o, pre[[2]int{ti, oi}])
			if e != nil {
				pmu.Lock()
				obs.Msgs = append(obs.Msgs, fmt.Sprintf("t%d.%d %s: %v", ti, oi, o.Op, e))
				pmu.Unlock()
			}
			obs.Outcomes[ti] = append(obs.Outcomes[ti], classify(e))
		}
	}
	if concurrent {
		var wg sync.WaitGroup
		done := make(chan struct{})
		for ti := range c.Threads {
			wg.Add(1)
			go func(ti int) { defer wg.Done(); runThread(ti) }(ti)
		}
		go func() { wg.Wait(); close(done) }()
		select {
		case <-done:
		case <-watchdog(90 * time.Second):
			obs.Stall = true
			buf := make([]byte, 1<<20)
			n := runtime.Stack(buf, true)
			fmt.Fprintf(os.Stderr, "STALL case %d\n%s\n", c.ID, buf[:n])
			return
		}
	} else {
		if order == nil {
			for ti := range c.Threads {
				order = append(order, ti)
			}
		}
		for _, ti := range order {
			runThread(ti)
		}
	}
	obs.Mem = observe(ctx, db, c)
	cdone := make(chan error, 1)
	go func() { cdone <- db.Close() }()
	select {
	case err := <-cdone:
		if err != nil {
			obs.Err = "close: " + err.Error()
			return
		}
	case <-watchdog(90 * time.Second):
		obs.Stall = true
		return
	}
	c2 := c
	c2.GC = false
	db2, err := openDB(fs, c2)
	if err != nil {
		obs.Err = "reopen: " + err.Error()
		return
	}
	obs.Reopen = observe(ctx, db2, c)
	if err := db2.Close(); err != nil {
		obs.Err = "close2: " + err.Error()
	}
	return
}

func runCase(c tcase) result {
	if c.Procs > 0 {
		runtime.GOMAXPROCS(c.Procs)
	}
	if c.Mode == "inject" {
		return runInjectCase(c)
	}
	if c.Mode == "stress" {
		return runStressCase(c)
	}
	if c.Mode == "fault" {
		return runFaultCase(c)
	}
	r := result{ID: c.ID}
	r.Conc = runOnce(c, true, nil, nil)
	// serial reference executes only the ops that reported success concurrently
	skip := make([][]bool, len(c.Threads))
	for ti := range c.Threads {
		skip[ti] = make([]bool, len(c.Threads[ti]))
		for oi := range c.Threads[ti] {
			if ti < len(r.Conc.Outcomes) && oi < len(r.Conc.Outcomes[ti]) && r.Conc.Outcomes[ti][oi] != "ok" {
				skip[ti][oi] = true
			}
		}
	}
	// the serial reference has no concurrency at all: no background GC either (a GC pass holds a
	// resource on a channel, which makes a concurrent DeleteChannel fail legitimately)
	cs := c
	cs.GC = false
	// The property asks for SOME serial order of the operations that reported success: try the
	// thread orders until one executes every such operation successfully with the same content.
	first := true
	for _, order := range permutations(len(c.Threads), 24) {
		so := runOnce(cs, false, skip, order)
		if first {
			r.Serial = so
			r.Order = order
			first = false
		}
		if serialExplains(r.Conc, so) {
			r.Serial = so
			r.Order = order
			break
		}
	}
	return r
}

func permutations(n int, limit int) [][]int {
	var out [][]int
	var rec func(cur []int, used []bool)
	rec = func(cur []int, used []bool) {
		if len(out) >= limit {
			return
		}
		if len(cur) == n {
			out = append(out, append([]int{}, cur...))
			return
		}
		for i := 0; i < n; i++ {
			if !used[i] {
				used[i] = true
				rec(append(cur, i), used)
				used[i] = false
			}
		}
	}
	rec(nil, make([]bool, n))
	return out
}

func sameObs(a, b []chanObs) bool {
	ja, _ := json.Marshal(a)
	jb, _ := json.Marshal(b)
	return string(ja) == string(jb)
}

// serialExplains: every operation that succeeded concurrently also succeeds in this serial
// order and the readable content is the same.
func serialExplains(conc, ser runObs) bool {
	for ti := range conc.Outcomes {
		for oi := range conc.Outcomes[ti] {
			if conc.Outcomes[ti][oi] == "ok" && (ti >= len(ser.Outcomes) || oi >= len(ser.Outcomes[ti]) || ser.Outcomes[ti][oi] != "ok") {
				return false
			}
		}
	}
	return sameObs(conc.Mem, ser.Mem)
}

func main() {
	startHeartbeat()
	in := bufio.NewScanner(os.Stdin)
	in.Buffer(make([]byte, 1<<20), 1<<26)
	out := bufio.NewWriter(os.Stdout)
	defer out.Flush()
	for in.Scan() {
		var c tcase
		if err := json.Unmarshal(in.Bytes(), &c); err != nil {
			fmt.Fprintln(os.Stderr, "bad case:", err)
			os.Exit(2)
		}
		b, _ := json.Marshal(runCase(c))
		out.Write(b)
		out.WriteByte('\n')
		out.Flush()
	}
}
