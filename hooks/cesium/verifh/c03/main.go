//go:build verif

// Command c03 drives the real cesium/internal/domain package (DB, Writer, Iterator,
// Delete) on an in-memory file system through scripted histories with several
// concurrently open writers on one channel. Line protocol: one JSON case per stdin
// line, one JSON result per stdout line. After every operation it records the error
// class and what a user can read (iterator enumeration with contents) plus the raw
// index pointers and the data file sizes (hook export_verif_c03.go).
package main

import (
	"bufio"
	"context"
	"encoding/json"
	"fmt"
	"io"
	"os"
	"sort"
	"strconv"
	"strings"

	"github.com/synnaxlabs/cesium/internal/domain"
	"github.com/synnaxlabs/cesium/internal/resource"
	"github.com/synnaxlabs/x/errors"
	xfs "github.com/synnaxlabs/x/io/fs"
	"github.com/synnaxlabs/x/query"
	"github.com/synnaxlabs/x/telem"
	"github.com/synnaxlabs/x/validate"
)

type op struct {
	Op    string `json:"op"`
	W     int    `json:"w"`
	Start int64  `json:"start"`
	End   int64  `json:"end"`
	A     int64  `json:"a"`
	B     int64  `json:"b"`
	Data  []int  `json:"data"`
	// open: lazy index persistence (auto commit with a long persist interval: commits reach
	// index.domain only when the writer closes) instead of persist-on-every-commit
	Lazy bool `json:"lazy,omitempty"`
	// deletec: writer ops that run inside the start / end offset resolver of Delete
	SOps []op `json:"sops,omitempty"`
	EOps []op `json:"eops,omitempty"`
}

type tcase struct {
	ID       int   `json:"id"`
	FileSize int64 `json:"file_size"`
	Ops      []op  `json:"ops"`
	// Telem, when present, makes the case a function-level differential test of
	// telem.TimeRange: each entry is [tr.Start, tr.End, rng.Start, rng.End].
	Telem [][]int64 `json:"telem,omitempty"`
}

type step struct {
	Cls    string    `json:"cls"`
	Err    string    `json:"err,omitempty"`
	Key    int       `json:"key"`    // file key held by the op's writer after the op (0: none)
	WStart int64     `json:"wstart"` // Start of the op's writer after the op
	WEnd   int64     `json:"wend"`   // End of the op's writer after the op
	Iter   [][]any   `json:"iter"`   // [start, end, size, [bytes]]
	Ptrs   [][]int64 `json:"ptrs"`   // [start, end, fileKey, offset, size]
	Files  [][]int64 `json:"files"`  // [key, size]
	// deletec: the nested writer ops that ran, in order, each with its own observation
	Nested []step `json:"nested,omitempty"`
	Phase  string `json:"phase,omitempty"` // nested step: "s" or "e"
	Idx    int    `json:"idx"`             // nested step: position in sops / eops
}

type result struct {
	ID      int    `json:"id"`
	Nominal int64  `json:"nominal"`
	Cap     int64  `json:"cap"`
	Steps   []step `json:"steps"`
	Fatal   string `json:"fatal,omitempty"`
	// per Telem entry: [OverlapsWith, ContainsRange, BoundBy.Start, BoundBy.End,
	// ContainsStamp(rng.Start), Valid, MakeValid.Start, MakeValid.End] (bools as 0/1)
	Telem [][]int64 `json:"telem,omitempty"`
}

func b2i(b bool) int64 {
	if b {
		return 1
	}
	return 0
}

func runTelem(c tcase) (res result) {
	res.ID = c.ID
	res.Steps = []step{}
	res.Telem = make([][]int64, 0, len(c.Telem))
	for _, q := range c.Telem {
		tr := telem.TimeRange{Start: telem.TimeStamp(q[0]), End: telem.TimeStamp(q[1])}
		rng := telem.TimeRange{Start: telem.TimeStamp(q[2]), End: telem.TimeStamp(q[3])}
		bb := tr.BoundBy(rng)
		mv := tr.MakeValid()
		res.Telem = append(res.Telem, []int64{
			b2i(tr.OverlapsWith(rng)), b2i(tr.ContainsRange(rng)), int64(bb.Start), int64(bb.End),
			b2i(tr.ContainsStamp(rng.Start)), b2i(tr.Valid()), int64(mv.Start), int64(mv.End),
		})
	}
	return res
}

func classify(err error) string {
	switch {
	case err == nil:
		return "ok"
	case errors.Is(err, domain.ErrWriteConflict):
		return "conflict"
	case errors.Is(err, validate.ErrValidation):
		return "validation"
	case errors.Is(err, query.ErrNotFound):
		return "notfound"
	case errors.Is(err, resource.ErrClosed):
		return "closed"
	default:
		return "other"
	}
}

// linear offset resolver: one byte per tick, no snapping (the model copies it).
func linResolver(_ context.Context, domainStart, ts telem.TimeStamp) (telem.Size, telem.TimeStamp, error) {
	return telem.Size(int64(ts) - int64(domainStart)), ts, nil
}

func observe(ctx context.Context, db *domain.DB, fs xfs.FS, st *step) error {
	it := db.OpenIterator(domain.IterRange(telem.TimeRangeMax))
	st.Iter = [][]any{}
	for ok := it.SeekFirst(ctx); ok && it.Valid(); ok = it.Next() {
		tr := it.TimeRange()
		r, err := it.OpenReader(ctx)
		if err != nil {
			_ = it.Close()
			return err
		}
		buf := make([]byte, int(it.Size()))
		n, err := r.ReadAt(buf, 0)
		if err != nil && err != io.EOF {
			_ = r.Close()
			_ = it.Close()
			return err
		}
		if cerr := r.Close(); cerr != nil {
			_ = it.Close()
			return cerr
		}
		bs := make([]int, n)
		for i := 0; i < n; i++ {
			bs[i] = int(buf[i])
		}
		st.Iter = append(st.Iter, []any{int64(tr.Start), int64(tr.End), int64(it.Size()), bs})
		if len(st.Iter) > 10000 {
			break
		}
	}
	if err := it.Close(); err != nil {
		return err
	}
	st.Ptrs = [][]int64{}
	for _, p := range db.VerifC03Pointers() {
		st.Ptrs = append(st.Ptrs, []int64{p.Start, p.End, int64(p.FileKey), int64(p.Offset), int64(p.Size)})
	}
	st.Files = [][]int64{}
	infos, err := fs.List("")
	if err != nil {
		return err
	}
	for _, fi := range infos {
		name := fi.Name()
		if !strings.HasSuffix(name, ".domain") {
			continue
		}
		k, err := strconv.Atoi(strings.TrimSuffix(name, ".domain"))
		if err != nil {
			continue // counter.domain, index.domain
		}
		st.Files = append(st.Files, []int64{int64(k), fi.Size()})
	}
	sort.Slice(st.Files, func(a, b int) bool { return st.Files[a][0] < st.Files[b][0] })
	return nil
}

// writerOp performs one scripted writer operation; bad = the script addresses a writer
// id that does not exist / already exists (no call is made).
func writerOp(ctx context.Context, db *domain.DB, writers map[int]*domain.Writer, o op) (err error, bad bool) {
	switch o.Op {
	case "open":
		if _, exists := writers[o.W]; exists {
			return nil, true
		}
		var w *domain.Writer
		interval := domain.AlwaysIndexPersistOnAutoCommit
		if o.Lazy {
			interval = telem.Hour
		}
		w, err = db.OpenWriter(ctx, domain.WriterConfig{
			Start:                    telem.TimeStamp(o.Start),
			End:                      telem.TimeStamp(o.End),
			AutoIndexPersistInterval: interval,
		})
		if err == nil {
			writers[o.W] = w
		}
		return err, false
	case "write":
		w, ok := writers[o.W]
		if !ok {
			return nil, true
		}
		bs := make([]byte, len(o.Data))
		for i, b := range o.Data {
			bs[i] = byte(b)
		}
		_, err = w.Write(bs)
		return err, false
	case "commit":
		w, ok := writers[o.W]
		if !ok {
			return nil, true
		}
		return w.Commit(ctx, telem.TimeStamp(o.End)), false
	case "close":
		w, ok := writers[o.W]
		if !ok {
			return nil, true
		}
		return w.Close(), false
	}
	return nil, true
}

func runCase(c tcase) (res result) {
	if c.Telem != nil {
		return runTelem(c)
	}
	res.ID = c.ID
	res.Steps = []step{}
	ctx := context.Background()
	fs := xfs.NewMem()
	cfg := domain.Config{FS: fs}
	if c.FileSize > 0 {
		cfg.FileSize = telem.Size(c.FileSize)
	}
	db, err := domain.Open(cfg)
	if err != nil {
		res.Fatal = "open: " + err.Error()
		return res
	}
	res.Nominal, res.Cap = db.VerifC03FileSizes()
	writers := map[int]*domain.Writer{}
	poisoned := false
	for _, o := range c.Ops {
		var st step
		func() {
			defer func() {
				if r := recover(); r != nil {
					st.Cls = "panic"
					st.Err = fmt.Sprint(r)
					poisoned = true
				}
			}()
			var err error
			switch o.Op {
			case "open", "write", "commit", "close":
				var bad bool
				err, bad = writerOp(ctx, db, writers, o)
				if bad {
					st.Cls = "badop"
					return
				}
			case "reopen":
				// restart: close every writer (in id order), close the DB, open it again on the
				// same file system
				ids := make([]int, 0, len(writers))
				for id := range writers {
					ids = append(ids, id)
				}
				sort.Ints(ids)
				for _, id := range ids {
					if cerr := writers[id].Close(); cerr != nil {
						err = errors.Combine(err, cerr)
					}
				}
				if cerr := db.Close(); cerr != nil {
					panic("reopen: db.Close: " + cerr.Error())
				}
				ndb, oerr := domain.Open(cfg)
				if oerr != nil {
					panic("reopen: domain.Open: " + oerr.Error())
				}
				db = ndb
			case "deletec":
				nestedPanic := false
				mk := func(phase string, ops []op) domain.OffsetResolver {
					ran := false
					return func(c context.Context, ds, ts telem.TimeStamp) (telem.Size, telem.TimeStamp, error) {
						if !ran {
							ran = true
							for i, no := range ops {
								var ns step
								ns.Phase, ns.Idx = phase, i
								func() {
									defer func() {
										if r := recover(); r != nil {
											ns.Cls = "panic"
											ns.Err = fmt.Sprint(r)
											nestedPanic = true
										}
									}()
									nerr, bad := writerOp(c, db, writers, no)
									if bad {
										ns.Cls = "badop"
										return
									}
									ns.Cls = classify(nerr)
									if nerr != nil {
										ns.Err = nerr.Error()
									}
								}()
								if nestedPanic {
									st.Nested = append(st.Nested, ns)
									return 0, 0, errors.New("nested panic")
								}
								if w, ok := writers[no.W]; ok {
									ns.Key = int(w.VerifC03FileKey())
									ns.WStart = int64(w.Start)
									ns.WEnd = int64(w.End)
								}
								if oerr := observe(c, db, fs, &ns); oerr != nil {
									ns.Err = "observe: " + oerr.Error()
								}
								st.Nested = append(st.Nested, ns)
							}
						}
						return linResolver(c, ds, ts)
					}
				}
				err = db.Delete(ctx, telem.TimeRange{Start: telem.TimeStamp(o.A), End: telem.TimeStamp(o.B)},
					mk("s", o.SOps), mk("e", o.EOps))
				if nestedPanic {
					st.Cls = "panic"
					poisoned = true
					return
				}
			case "delete":
				err = db.Delete(ctx, telem.TimeRange{Start: telem.TimeStamp(o.A), End: telem.TimeStamp(o.B)},
					linResolver, linResolver)
			default:
				st.Cls = "badop"
				return
			}
			st.Cls = classify(err)
			if err != nil {
				st.Err = err.Error()
			}
		}()
		if poisoned {
			// index.update panics while holding the index mutex: nothing can be observed any more.
			res.Steps = append(res.Steps, st)
			return res
		}
		if w, ok := writers[o.W]; ok && o.Op != "delete" && o.Op != "deletec" && o.Op != "reopen" {
			st.Key = int(w.VerifC03FileKey())
			st.WStart = int64(w.Start)
			st.WEnd = int64(w.End)
		}
		if err := observe(ctx, db, fs, &st); err != nil {
			res.Fatal = "observe: " + err.Error()
			res.Steps = append(res.Steps, st)
			return res
		}
		res.Steps = append(res.Steps, st)
	}
	for _, w := range writers {
		_ = w.Close()
	}
	if err := db.Close(); err != nil {
		res.Fatal = "close: " + err.Error()
	}
	return res
}

func main() {
	in := bufio.NewScanner(os.Stdin)
	in.Buffer(make([]byte, 1<<20), 1<<26)
	out := bufio.NewWriter(os.Stdout)
	defer out.Flush()
	for in.Scan() {
		var c tcase
		if err := json.Unmarshal(in.Bytes(), &c); err != nil {
			fmt.Fprintln(os.Stderr, "bad case:", err)
			os.Exit(2)
		}
		b, _ := json.Marshal(runCase(c))
		out.Write(b)
		out.WriteByte('\n')
	}
}
