//go:build verif

// Command c04 drives the real cesium database (public API + the VerifGC hook) through
// scripts of writes, time-range deletes, garbage collections and reopens on an in-memory
// file system. After every operation it reports, per channel, the persisted domain
// pointers (decoded from index.domain), the data-file sizes, and the result of reading a
// fixed set of time ranges. Line protocol: one JSON case per stdin line, one JSON
// result per stdout line.
package main

import (
	"bufio"
	"context"
	"encoding/binary"
	"encoding/json"
	"fmt"
	"os"
	"sort"
	"strconv"
	"strings"
	"time"

	"github.com/synnaxlabs/cesium"
	xfs "github.com/synnaxlabs/x/io/fs"
	"github.com/synnaxlabs/x/telem"
)

type chanSpec struct {
	Key   uint32 `json:"key"`
	Index uint32 `json:"index"` // key of the index channel (== Key for an index channel)
	Type  string `json:"type"`  // "ts" (index), "i64", "u8", "str"
}

type op struct {
	Op     string             `json:"op"` // write | delete | gc | reopen
	Start  int64              `json:"start"`
	Chans  []uint32           `json:"chans"`
	Stamps []int64            `json:"stamps"` // written to the index channel if it is in Chans
	Vals   map[string][]int64 `json:"vals"`   // per data channel key
	A      int64              `json:"a"`
	B      int64              `json:"b"`
}

type tcase struct {
	ID     int        `json:"id"`
	Cap    int64      `json:"cap"` // cesium file size cap (bytes)
	Thr    float32    `json:"thr"` // GC threshold
	Chans  []chanSpec `json:"channels"`
	Ops    []op       `json:"ops"`
	Ranges [][2]int64 `json:"ranges"`
}

// one series returned by a read: [start, end, v0, v1, ...]
type chanObs struct {
	Key   uint32    `json:"key"`
	Ptrs  [][]int64 `json:"ptrs"`  // [start, end, fileKey, offset, size]
	Files [][]int64 `json:"files"` // [fileKey, size]
	Reads [][][]int64 `json:"reads"` // per range: list of series
	RErr  []string  `json:"rerr"`  // per range: read error ("" if none)
}

type opObs struct {
	Err   string    `json:"err"`
	Chans []chanObs `json:"chans"`
	Size  int64     `json:"size"`
}

type result struct {
	ID       int     `json:"id"`
	Outs     []opObs `json:"outs"`
	ThrBytes int64   `json:"thr_bytes"`
	Panic    *string `json:"panic"`
	Fatal    string  `json:"fatal"`
}

func dtOf(t string) telem.DataType {
	switch t {
	case "ts":
		return telem.TimeStampT
	case "i64":
		return telem.Int64T
	case "u8":
		return telem.Uint8T
	case "str":
		return telem.StringT
	}
	panic("unknown type " + t)
}

func mkSeries(t string, vals []int64) telem.Series {
	switch t {
	case "ts":
		ts := make([]telem.TimeStamp, len(vals))
		for i, v := range vals {
			ts[i] = telem.TimeStamp(v)
		}
		return telem.NewSeries(ts)
	case "i64":
		return telem.NewSeries(vals)
	case "u8":
		b := make([]uint8, len(vals))
		for i, v := range vals {
			b[i] = uint8(v)
		}
		return telem.NewSeries(b)
	case "str":
		s := make([]string, len(vals))
		for i, v := range vals {
			s[i] = strconv.FormatInt(v, 10)
		}
		return telem.NewSeries(s)
	}
	panic("unknown type " + t)
}

func decode(t string, s telem.Series) []int64 {
	switch t {
	case "ts", "i64":
		n := len(s.Data) / 8
		out := make([]int64, n)
		for i := 0; i < n; i++ {
			out[i] = int64(binary.LittleEndian.Uint64(s.Data[8*i:]))
		}
		if len(s.Data)%8 != 0 {
			out = append(out, -7777777)
		}
		return out
	case "u8":
		out := make([]int64, len(s.Data))
		for i, b := range s.Data {
			out[i] = int64(b)
		}
		return out
	case "str":
		var out []int64
		off := 0
		for off+4 <= len(s.Data) {
			l := int(binary.LittleEndian.Uint32(s.Data[off:]))
			if off+4+l > len(s.Data) {
				out = append(out, -7777777)
				return out
			}
			v, err := strconv.ParseInt(string(s.Data[off+4:off+4+l]), 10, 64)
			if err != nil {
				v = -8888888
			}
			out = append(out, v)
			off += 4 + l
		}
		if off != len(s.Data) {
			out = append(out, -7777777)
		}
		return out
	}
	panic("unknown type " + t)
}

type env struct {
	fs  *xfs.MemFS
	db  *cesium.DB
	c   tcase
	ctx context.Context
}

func (e *env) open() error {
	db, err := cesium.Open(e.ctx, "",
		cesium.WithFS(e.fs),
		cesium.WithFileSizeCap(telem.Size(e.c.Cap)),
		cesium.WithGCConfig(cesium.GCConfig{
			MaxGoroutine: 10,
			TryInterval:  time.Hour,
			Threshold:    e.c.Thr,
		}),
	)
	if err != nil {
		return err
	}
	e.db = db
	return nil
}

func errStr(err error) string {
	if err == nil {
		return ""
	}
	s := err.Error()
	if len(s) > 300 {
		s = s[:300]
	}
	if s == "" {
		s = "error"
	}
	return s
}

func (e *env) write(o op) (err error) {
	keys := make([]cesium.ChannelKey, len(o.Chans))
	for i, k := range o.Chans {
		keys[i] = cesium.ChannelKey(k)
	}
	t := true
	w, err := e.db.OpenWriter(e.ctx, cesium.WriterConfig{
		Channels: keys,
		Start:    telem.TimeStamp(o.Start),
		Sync:     &t,
	})
	if err != nil {
		return err
	}
	defer func() {
		cerr := w.Close()
		if err == nil {
			err = cerr
		}
	}()
	series := make([]telem.Series, len(keys))
	for i, k := range o.Chans {
		var spec chanSpec
		for _, c := range e.c.Chans {
			if c.Key == k {
				spec = c
			}
		}
		if spec.Type == "ts" {
			series[i] = mkSeries("ts", o.Stamps)
		} else {
			series[i] = mkSeries(spec.Type, o.Vals[strconv.Itoa(int(k))])
		}
	}
	if _, err = w.Write(telem.MultiFrame(keys, series)); err != nil {
		return err
	}
	_, err = w.Commit()
	return err
}

func (e *env) observe() []chanObs {
	out := make([]chanObs, 0, len(e.c.Chans))
	for _, c := range e.c.Chans {
		co := chanObs{Key: c.Key, Ptrs: [][]int64{}, Files: [][]int64{}}
		dir := strconv.Itoa(int(c.Key))
		// persisted pointers
		if f, err := e.fs.Open(dir+"/index.domain", os.O_RDONLY); err == nil {
			st, _ := f.Stat()
			b := make([]byte, st.Size())
			if len(b) > 0 {
				_, _ = f.ReadAt(b, 0)
			}
			_ = f.Close()
			for i := 0; i+26 <= len(b); i += 26 {
				co.Ptrs = append(co.Ptrs, []int64{
					int64(binary.LittleEndian.Uint64(b[i:])),
					int64(binary.LittleEndian.Uint64(b[i+8:])),
					int64(binary.LittleEndian.Uint16(b[i+16:])),
					int64(binary.LittleEndian.Uint32(b[i+18:])),
					int64(binary.LittleEndian.Uint32(b[i+22:])),
				})
			}
			if len(b)%26 != 0 {
				co.Ptrs = append(co.Ptrs, []int64{-1, -1, -1, -1, int64(len(b))})
			}
		}
		// data files
		if infos, err := e.fs.List(dir); err == nil {
			for _, fi := range infos {
				name := fi.Name()
				if !strings.HasSuffix(name, ".domain") {
					// leftovers of GC (_gc, _temp) are reported with negative keys
					if strings.Contains(name, ".domain_") {
						co.Files = append(co.Files, []int64{-1, fi.Size()})
					}
					continue
				}
				k, err := strconv.Atoi(strings.TrimSuffix(name, ".domain"))
				if err != nil {
					continue // index.domain, counter.domain
				}
				co.Files = append(co.Files, []int64{int64(k), fi.Size()})
			}
		}
		sort.Slice(co.Files, func(a, b int) bool { return co.Files[a][0] < co.Files[b][0] })
		// reads
		for _, r := range e.c.Ranges {
			fr, err := e.db.Read(e.ctx, telem.TimeRange{Start: telem.TimeStamp(r[0]), End: telem.TimeStamp(r[1])}, cesium.ChannelKey(c.Key))
			co.RErr = append(co.RErr, errStr(err))
			ser := [][]int64{}
			if err == nil {
				for _, s := range fr.Get(cesium.ChannelKey(c.Key)).Series {
					row := []int64{int64(s.TimeRange.Start), int64(s.TimeRange.End)}
					row = append(row, decode(c.Type, s)...)
					ser = append(ser, row)
				}
				sort.SliceStable(ser, func(a, b int) bool { return ser[a][0] < ser[b][0] })
			}
			co.Reads = append(co.Reads, ser)
		}
		out = append(out, co)
	}
	return out
}

func runCase(c tcase) (res result) {
	res.ID = c.ID
	res.Outs = []opObs{}
	defer func() {
		if r := recover(); r != nil {
			s := fmt.Sprint(r)
			res.Panic = &s
		}
	}()
	e := &env{fs: xfs.NewMem(), c: c, ctx: context.Background()}
	if err := e.open(); err != nil {
		res.Fatal = "open: " + err.Error()
		return
	}
	defer func() {
		if e.db != nil {
			_ = e.db.Close()
		}
	}()
	// what the domain layer computes for the GC threshold in bytes (reported so the
	// runner can check its own float32 emulation; FileSize := round(0.8*cap))
	fsz := int64(0.8*float64(c.Cap) + 0.5)
	res.ThrBytes = int64(c.Thr * float32(fsz))
	// index channels first
	for pass := 0; pass < 2; pass++ {
		for _, ch := range c.Chans {
			isIdx := ch.Type == "ts"
			if (pass == 0) != isIdx {
				continue
			}
			cc := cesium.Channel{Key: cesium.ChannelKey(ch.Key), Name: "c" + strconv.Itoa(int(ch.Key)), DataType: dtOf(ch.Type)}
			if isIdx {
				cc.IsIndex = true
			} else {
				cc.Index = cesium.ChannelKey(ch.Index)
			}
			if err := e.db.CreateChannel(e.ctx, cc); err != nil {
				res.Fatal = "create channel: " + err.Error()
				return
			}
		}
	}
	for _, o := range c.Ops {
		var err error
		switch o.Op {
		case "write":
			err = e.write(o)
		case "delete":
			keys := make([]cesium.ChannelKey, len(o.Chans))
			for i, k := range o.Chans {
				keys[i] = cesium.ChannelKey(k)
			}
			err = e.db.DeleteTimeRange(e.ctx, keys, telem.TimeRange{Start: telem.TimeStamp(o.A), End: telem.TimeStamp(o.B)})
		case "gc":
			err = e.db.VerifGC(e.ctx)
		case "reopen":
			err = e.db.Close()
			e.db = nil
			if err == nil {
				err = e.open()
			} else {
				res.Fatal = "close: " + err.Error()
				return
			}
			if err != nil {
				res.Fatal = "reopen: " + err.Error()
				return
			}
		default:
			res.Fatal = "unknown op " + o.Op
			return
		}
		ob := opObs{Err: errStr(err)}
		ob.Chans = e.observe()
		ob.Size = int64(e.db.Metrics().DiskSize)
		res.Outs = append(res.Outs, ob)
	}
	return
}

func main() {
	in := bufio.NewReaderSize(os.Stdin, 1<<20)
	out := bufio.NewWriter(os.Stdout)
	defer out.Flush()
	dec := json.NewDecoder(in)
	for {
		var c tcase
		if err := dec.Decode(&c); err != nil {
			return
		}
		res := runCase(c)
		b, _ := json.Marshal(res)
		out.Write(b)
		out.WriteByte('\n')
		out.Flush()
	}
}
