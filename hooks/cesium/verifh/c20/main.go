//go:build verif

// Command c20 drives the real cesium relay / streamer / writer pipeline through scripted
// histories (C20). One JSON case per stdin line, one JSON result per stdout line. A case
// is a sequential driver script; the relay, streamer and writer goroutines of the real
// code run concurrently with the driver. Every written series carries a unique tag
// (writer id, sequence number); an always-ready consumer goroutine per streamer records
// the frames it receives, in order. `sync` ops are barriers implemented with probe frames
// written by a dedicated probe writer on two dedicated probe channels: every streamer's
// key set carries exactly one of the two probe keys (alternating with each re-subscribe),
// so a received probe shows both that all earlier frames were processed and which
// subscription generation is active.
package main

import (
	"bufio"
	"context"
	"encoding/json"
	"fmt"
	"os"
	"runtime/debug"
	"sort"
	"strings"
	"sync"
	"time"

	"github.com/synnaxlabs/cesium"
	"github.com/synnaxlabs/x/confluence"
	xcontrol "github.com/synnaxlabs/x/control"
	"github.com/synnaxlabs/x/errors"
	xfs "github.com/synnaxlabs/x/io/fs"
	"github.com/synnaxlabs/x/signal"
	"github.com/synnaxlabs/x/telem"
	"github.com/synnaxlabs/x/validate"
)

const (
	probeA   = cesium.ChannelKey(9001)
	probeB   = cesium.ChannelKey(9002)
	tagMul   = int64(1000000)
	tsBase   = int64(1000000000000)
	maxSyncs = 400
)

var hangBound = 20 * time.Second

type chanDef struct {
	K    uint32 `json:"k"`
	Kind string `json:"kind"` // v = virtual, i = index, d = data (indexed by Idx)
	Idx  uint32 `json:"idx"`
}

type cfgT struct {
	Buf       int       `json:"buf"`
	TimeoutMs int       `json:"timeout_ms"`
	OutBuf    int       `json:"out_buf"`
	Chans     []chanDef `json:"chans"`
}

type opT struct {
	Op    string   `json:"op"`
	W     int      `json:"w"`
	S     int      `json:"s"`
	Mode  string   `json:"mode"` // ps | so | po
	Chans []uint32 `json:"chans"`
	Auths []int    `json:"auths"`
	Keys  []uint32 `json:"keys"`
	Auth  int      `json:"auth"`
	Bad   bool     `json:"bad"`
	Auto  bool     `json:"auto"` // open_writer: AutoIndex (cesium generates the index series)
	Kss   [][]uint32 `json:"kss"`
	// open_streamer: open from the very same key slice (same backing array) as streamer
	// Share was opened from — a caller re-using one []ChannelKey for several streamers
	Share int `json:"share"`
}

type tcase struct {
	ID  int   `json:"id"`
	Cfg cfgT  `json:"cfg"`
	Ops []opT `json:"ops"`
}

type opRes struct {
	E  string `json:"e"`  // error class ("" = ok)
	A  bool   `json:"a"`  // write: authorized flag; close_streamer: output closed
	Ms int64  `json:"ms"` // wall time of the call
}

type item struct {
	W    int      `json:"w"`
	Seq  int      `json:"seq"`
	Keys []uint32 `json:"keys"`
	// Ts is the timestamp of an index series that cesium generated itself (auto-index
	// writer); 0 if the frame carries none. Such a series does not identify its write.
	Ts int64 `json:"ts,omitempty"`
}

type streamRes struct {
	S     int    `json:"s"`
	Items []item `json:"items"`
}

type result struct {
	ID      int         `json:"id"`
	Ops     []opRes     `json:"ops"`
	Streams []streamRes `json:"streams"`
	TearOps []opT       `json:"tear_ops"`
	Tear    []opRes     `json:"tear"`
	Hang    *string     `json:"hang"`
	Panic   *string     `json:"panic"`
	Anomaly *string     `json:"anomaly"`
	Syncs   int         `json:"syncs"`
	MaxMs   int64       `json:"max_ms"`
}

type wstate struct {
	w      *cesium.Writer
	seq    int
	closed bool
	chans  map[uint32]bool
	// background goroutine (bg_writes ... join): while active, the driver leaves w alone
	auto     bool
	persist  bool
	bgActive bool
	bgDone   chan struct{}
	bgErr    string
	bgMaxMs  int64
}

type sstate struct {
	id        int
	in        confluence.Inlet[cesium.StreamerRequest]
	out       confluence.Outlet[cesium.StreamerResponse]
	cancel    context.CancelFunc
	items     []item
	lastProbe int64
	parity    int // parity shown by the last received probe
	expParity int
	confirmed int // expParity when a barrier last confirmed the active subscription
	// the slice handed to NewStreamer (possibly shared with other streamers), a copy of
	// its content at that time, and the streamer that first used it
	keys     []cesium.ChannelKey
	keysCopy []cesium.ChannelKey
	root     int
	// the frames exactly as received (not copied), parallel to items: re-read at the end
	// to catch a frame that changes after it was delivered
	raw []cesium.Frame
	paused    bool
	closeReq  bool
	outClosed bool
	connected bool
}

type caseState struct {
	mu       sync.Mutex
	cond     *sync.Cond
	cfg      cfgT
	kinds    map[uint32]string
	db       *cesium.DB
	dbClosed bool
	writers  map[int]*wstate
	probe    *cesium.Writer
	probeN   int64
	strs     map[int]*sstate
	order    []int
	tsN      int64
	tsTag    map[int64][2]int
	autoTs   map[[2]int]int64 // (writer, seq) -> auto-generated index timestamp it was relayed with
	anomaly  string
	syncs    int
}

func errClass(err error) string {
	if err == nil {
		return ""
	}
	switch {
	case errors.Is(err, xcontrol.ErrUnauthorized):
		return "unauth"
	case errors.Is(err, cesium.ErrDBClosed):
		return "dbclosed"
	case errors.Is(err, cesium.ErrWriterClosed):
		return "wclosed"
	case errors.Is(err, cesium.ErrChannelNotFound):
		return "notfound"
	case errors.Is(err, validate.ErrValidation):
		return "validation"
	}
	s := err.Error()
	if len(s) > 80 {
		s = s[:80]
	}
	return "other:" + s
}

// guarded runs f with the hang watchdog. ok=false means f did not return within the bound.
func guarded(f func()) (ms int64, ok bool, pnc string) {
	done := make(chan string, 1)
	t0 := time.Now()
	go func() {
		defer func() {
			if r := recover(); r != nil {
				if os.Getenv("C20_STACK") != "" {
					fmt.Fprintln(os.Stderr, string(debug.Stack()))
				}
				done <- fmt.Sprint(r)
				return
			}
			done <- ""
		}()
		f()
	}()
	select {
	case p := <-done:
		return time.Since(t0).Milliseconds(), true, p
	case <-time.After(hangBound):
		return time.Since(t0).Milliseconds(), false, ""
	}
}

func (cs *caseState) setAnomaly(s string) {
	cs.mu.Lock()
	if cs.anomaly == "" {
		cs.anomaly = s
	}
	cs.mu.Unlock()
}

func (cs *caseState) consume(s *sstate) {
	defer func() {
		if r := recover(); r != nil {
			cs.setAnomaly(fmt.Sprintf("panic while reading a frame received by streamer %d: %v", s.id, r))
			cs.mu.Lock()
			s.outClosed = true
			cs.cond.Broadcast()
			cs.mu.Unlock()
		}
	}()
	for {
		cs.mu.Lock()
		for s.paused {
			cs.cond.Wait()
		}
		cs.mu.Unlock()
		res, ok := <-s.out.Outlet()
		if !ok {
			cs.mu.Lock()
			s.outClosed = true
			cs.cond.Broadcast()
			cs.mu.Unlock()
			return
		}
		var (
			it       = item{W: -1, Seq: -1}
			isProbe  bool
			probeN   int64
			probePar int
			mixed    bool
			bothProbes bool
		)
		for k, ser := range res.Frame.Entries() {
			if ser.Len() != 1 {
				mixed = true
				continue
			}
			if k == probeA || k == probeB {
				if isProbe {
					bothProbes = true
				}
				isProbe = true
				probeN = -telem.ValueAt[int64](ser, 0)
				if k == probeB {
					probePar = 1
				}
				if len(it.Keys) > 0 {
					mixed = true
				}
				continue
			}
			if isProbe {
				mixed = true
			}
			var w, q int
			v := telem.ValueAt[int64](ser, 0)
			if cs.kinds[uint32(k)] == "i" {
				cs.mu.Lock()
				t, ok := cs.tsTag[v]
				cs.mu.Unlock()
				if !ok {
					// generated by cesium for an auto-index writer: says nothing about which
					// write it belongs to; checked at the end against the other streamers
					it.Ts = v
					it.Keys = append(it.Keys, uint32(k))
					continue
				}
				w, q = t[0], t[1]
			} else {
				w, q = int(v/tagMul), int(v%tagMul)
			}
			if it.W == -1 {
				it.W, it.Seq = w, q
			} else if it.W != w || it.Seq != q {
				mixed = true
			}
			it.Keys = append(it.Keys, uint32(k))
		}
		if mixed {
			cs.setAnomaly(fmt.Sprintf("streamer %d received a frame mixing series of different writes or of unexpected shape: %v", s.id, res.Frame))
		}
		cs.mu.Lock()
		if isProbe {
			if probeN > s.lastProbe {
				s.lastProbe = probeN
				s.parity = probePar
				// Every key set the harness hands to a streamer carries exactly one of the two
				// probe keys, the other one only after a re-subscription request of THIS
				// streamer. Both at once, or the other one while no request is outstanding,
				// means the streamer's subscription changed without a request of its own.
				if bothProbes || (s.confirmed == s.expParity && probePar != s.expParity%2) {
					if cs.anomaly == "" {
						cs.anomaly = fmt.Sprintf("streamer %d: its subscription changed although it has no re-subscription request outstanding (probe frame arrived on keys %v; streamers opened from the same key slice: root %d)", s.id, res.Frame.KeysSlice(), s.root)
					}
					s.parity = s.expParity % 2 // let the run go on; the anomaly is reported
				}
			}
		} else {
			if it.Keys == nil {
				// an empty frame was forwarded: recorded as item (0, 0, []) — the model
				// never produces it, so it shows up as a correspondence mismatch
				it = item{W: 0, Seq: 0, Keys: []uint32{}}
			}
			s.items = append(s.items, it)
			s.raw = append(s.raw, res.Frame)
		}
		cs.cond.Broadcast()
		cs.mu.Unlock()
	}
}

// reDecode reads a received frame again: (keys, tag of the data series, auto timestamp).
func (cs *caseState) reDecode(fr cesium.Frame) (it item) {
	it = item{W: -1, Seq: -1}
	for k, ser := range fr.Entries() {
		if ser.Len() != 1 {
			continue
		}
		v := telem.ValueAt[int64](ser, 0)
		it.Keys = append(it.Keys, uint32(k))
		if cs.kinds[uint32(k)] == "i" {
			if t, ok := cs.tsTag[v]; ok {
				it.W, it.Seq = t[0], t[1]
			} else {
				it.Ts = v
			}
			continue
		}
		it.W, it.Seq = int(v/tagMul), int(v%tagMul)
	}
	return it
}

// verifyFrames (cs.mu held, driver idle) checks the CONTENT of what the streamers received
// beyond the tags: (1) every received frame still reads as it did when it was received;
// (2) an auto-generated index series of one write is the same for every streamer, no
// two writes share one, and a writer's timestamps increase with its writes; (3) a frame
// that carries only such an index series is attributed to its write through them.
func who(id int) string {
	if id < 0 {
		return "the harness's all-channel streamer"
	}
	return fmt.Sprintf("streamer %d", id)
}

func (cs *caseState) verifyFrames(quiescent bool) {
	note := func(f string, a ...any) {
		if cs.anomaly == "" {
			cs.anomaly = fmt.Sprintf(f, a...)
		}
	}
	type tag [2]int
	tsOf := map[tag]int64{}
	tagOf := map[int64]tag{}
	for _, id := range cs.order {
		s := cs.strs[id]
		for j, it := range s.items {
			if j < len(s.raw) {
				now := cs.reDecode(s.raw[j])
				was := it
				if was.W == 0 && was.Seq == 0 && len(was.Keys) == 0 {
					continue
				}
				same := now.Ts == was.Ts && len(now.Keys) == len(was.Keys) && (was.W < 0 || (now.W == was.W && now.Seq == was.Seq))
				if !same {
					note("a frame changed after %s had received it: it was write (%d,%d) keys %v index timestamp %d, now reads write (%d,%d) keys %v index timestamp %d",
						who(s.id), was.W, was.Seq, was.Keys, was.Ts, now.W, now.Seq, now.Keys, now.Ts)
				}
			}
			if it.Ts == 0 || it.W < 0 {
				continue
			}
			tg := tag{it.W, it.Seq}
			if old, ok := tsOf[tg]; ok && old != it.Ts {
				note("write (%d,%d) was delivered with index timestamp %d to one streamer and %d to another (streamer %d)", it.W, it.Seq, old, it.Ts, s.id)
			}
			if other, ok := tagOf[it.Ts]; ok && other != tg {
				note("the same auto-generated index timestamp %d was delivered for two different writes (%d,%d) and (%d,%d): received frames are not the written ones", it.Ts, other[0], other[1], it.W, it.Seq)
			}
			tsOf[tg], tagOf[it.Ts] = it.Ts, tg
		}
	}
	for a, ta := range tsOf {
		for b, tb := range tsOf {
			if a[0] == b[0] && a[1] < b[1] && ta >= tb {
				note("writer %d: write %d carries index timestamp %d, its later write %d carries %d", a[0], a[1], ta, b[1], tb)
			}
		}
	}
	for _, id := range cs.order {
		s := cs.strs[id]
		for j := range s.items {
			it := &s.items[j]
			if it.W >= 0 || it.Ts == 0 {
				continue
			}
			if tg, ok := tagOf[it.Ts]; ok {
				it.W, it.Seq = tg[0], tg[1]
			} else {
				if quiescent {
					note("streamer %d received an index series with timestamp %d that belongs to no frame any streamer received whole", s.id, it.Ts)
				}
				it.W, it.Seq = 0, 0 // unattributable: shows up as a correspondence mismatch
			}
		}
	}
	cs.autoTs = map[[2]int]int64{}
	for k, v := range tsOf {
		cs.autoTs[[2]int{k[0], k[1]}] = v
	}
}

func probeKey(par int) cesium.ChannelKey {
	if par%2 == 0 {
		return probeA
	}
	return probeB
}

func toKeys(ks []uint32, par int) []cesium.ChannelKey {
	out := make([]cesium.ChannelKey, 0, len(ks)+1)
	for _, k := range ks {
		out = append(out, cesium.ChannelKey(k))
	}
	return append(out, probeKey(par))
}

// waitCond polls pred (under cs.mu) until it holds or the bound expires.
func (cs *caseState) waitCond(bound time.Duration, pred func() bool) bool {
	deadline := time.Now().Add(bound)
	sleep := 50 * time.Microsecond
	for {
		cs.mu.Lock()
		ok := pred()
		cs.mu.Unlock()
		if ok {
			return true
		}
		if time.Now().After(deadline) {
			return false
		}
		time.Sleep(sleep)
		if sleep < 2*time.Millisecond {
			sleep *= 2
		}
	}
}

// syncBarrier: all frames pushed before it have been handed to (or dropped for) every
// connected streamer, every ready streamer's consumer has recorded them, and every ready
// streamer runs its latest requested subscription.
func (cs *caseState) syncBarrier() string {
	if cs.dbClosed || cs.probe == nil {
		return ""
	}
	for attempt := 0; attempt < maxSyncs; attempt++ {
		cs.probeN++
		n := cs.probeN
		fr := telem.MultiFrame(
			[]cesium.ChannelKey{probeA, probeB},
			[]telem.Series{telem.NewSeriesV[int64](-n), telem.NewSeriesV[int64](-n)},
		)
		if _, err := cs.probe.Write(fr); err != nil {
			return "probe write failed: " + err.Error()
		}
		ready := func(s *sstate) bool { return s.connected && !s.paused && !s.closeReq }
		if !cs.waitCond(hangBound*9/10, func() bool {
			for _, id := range cs.order {
				if s := cs.strs[id]; ready(s) && s.lastProbe < n {
					return false
				}
			}
			return true
		}) {
			return "a connected streamer with an always-ready consumer did not receive a frame on a subscribed channel within the bound (probe)"
		}
		all := true
		cs.mu.Lock()
		for _, id := range cs.order {
			if s := cs.strs[id]; ready(s) && s.parity != s.expParity%2 {
				all = false
			}
		}
		cs.mu.Unlock()
		cs.syncs++
		if all {
			cs.mu.Lock()
			for _, id := range cs.order {
				if s := cs.strs[id]; ready(s) {
					s.confirmed = s.expParity
				}
			}
			cs.mu.Unlock()
			return ""
		}
		time.Sleep(100 * time.Microsecond)
	}
	return "a re-subscription request was not applied after many probe rounds"
}

func mode(m string) cesium.WriterMode {
	switch m {
	case "so":
		return cesium.WriterModeStreamOnly
	case "po":
		return cesium.WriterModePersistOnly
	}
	return cesium.WriterModePersistStream
}

func runCase(c tcase) (res result) {
	res.ID = c.ID
	ctx := context.Background()
	cs := &caseState{cfg: c.Cfg, kinds: map[uint32]string{}, writers: map[int]*wstate{},
		strs: map[int]*sstate{}, tsTag: map[int64][2]int{}}
	cs.cond = sync.NewCond(&cs.mu)
	fail := func(kind *(*string), s string) { *kind = &s }
	defer func() {
		if r := recover(); r != nil {
			s := fmt.Sprint(r)
			res.Panic = &s
		}
	}()
	buf, tmo := c.Cfg.Buf, c.Cfg.TimeoutMs
	if buf <= 0 {
		buf = 1000
	}
	if tmo <= 0 {
		tmo = 5000
	}
	db, err := cesium.Open(ctx, "", cesium.WithFS(xfs.NewMem()),
		cesium.WithVerifStreamingConfig(cesium.DBStreamingConfig{
			BufferSize: buf, SlowConsumerTimeout: time.Duration(tmo) * time.Millisecond}))
	if err != nil {
		panic(err)
	}
	cs.db = db
	chs := []cesium.Channel{
		{Key: probeA, Name: "pa", DataType: telem.Int64T, Virtual: true},
		{Key: probeB, Name: "pb", DataType: telem.Int64T, Virtual: true},
	}
	for pass := 0; pass < 2; pass++ {
		for _, d := range c.Cfg.Chans {
			cs.kinds[d.K] = d.Kind
			ch := cesium.Channel{Key: cesium.ChannelKey(d.K), Name: fmt.Sprintf("c%d", d.K), DataType: telem.Int64T}
			switch d.Kind {
			case "v":
				ch.Virtual = true
			case "i":
				ch.IsIndex, ch.DataType = true, telem.TimeStampT
			case "d":
				ch.Index = cesium.ChannelKey(d.Idx)
			}
			if (pass == 0) == (d.Kind != "d") {
				chs = append(chs, ch)
			}
		}
	}
	if err := db.CreateChannel(ctx, chs...); err != nil {
		panic(err)
	}
	cs.probe, err = db.OpenWriter(ctx, cesium.WriterConfig{
		Channels: []cesium.ChannelKey{probeA, probeB}, Start: telem.TimeStamp(tsBase),
		Mode: cesium.WriterModeStreamOnly, Sync: new(true),
		ControlSubject: xcontrol.Subject{Key: "probe"},
	})
	if err != nil {
		panic(err)
	}
	// sentinel: an always-ready streamer subscribed to the probe channels only, connected
	// first, so that every barrier waits for the relay to have dequeued the probe (and
	// hence to have finished with every earlier frame) even when no scripted streamer is
	// connected and ready.
	{
		// It also subscribes to every channel of the case: it sees each relayed frame whole,
		// which ties an auto-generated index series to the write (tag in the data series).
		var all []uint32
		for _, d := range c.Cfg.Chans {
			all = append(all, d.K)
		}
		st, err := db.NewStreamer(ctx, cesium.StreamerConfig{Channels: toKeys(all, 0)})
		if err != nil {
			panic(err)
		}
		in := confluence.NewStream[cesium.StreamerRequest](1)
		out := confluence.NewStream[cesium.StreamerResponse](16)
		st.InFrom(in)
		st.OutTo(out)
		sctx, cancel := signal.Isolated()
		st.Flow(sctx, confluence.CloseOutputInletsOnExit())
		s := &sstate{id: -1, in: in, out: out, cancel: cancel, connected: true, items: []item{}}
		cs.strs[-1] = s
		cs.order = append(cs.order, -1)
		go cs.consume(s)
	}
	hung := false
	run := func(kind string, f func() opRes) opRes {
		var r opRes
		ms, ok, p := guarded(func() { r = f() })
		if p != "" {
			panic(kind + ": " + p)
		}
		if !ok {
			hung = true
			fail(&res.Hang, fmt.Sprintf("%s blocked for more than %s", kind, hangBound))
			return opRes{E: "hang", Ms: ms}
		}
		r.Ms = ms
		if ms > res.MaxMs {
			res.MaxMs = ms
		}
		return r
	}
	mkFrame := func(w int, ws *wstate, ks []uint32, bad bool) cesium.Frame {
		ws.seq++
		tag := int64(w)*tagMul + int64(ws.seq)
		keys := make([]cesium.ChannelKey, 0, len(ks))
		series := make([]telem.Series, 0, len(ks))
		for j, k := range ks {
			keys = append(keys, cesium.ChannelKey(k))
			switch {
			case bad && j == 0 && ws.chans[k] && cs.kinds[k] == "v":
				series = append(series, telem.NewSeriesV[float32](1.5))
			case cs.kinds[k] == "i":
				cs.mu.Lock()
				cs.tsN++
				ts := tsBase + cs.tsN
				cs.tsTag[ts] = [2]int{w, ws.seq}
				cs.mu.Unlock()
				series = append(series, telem.NewSeriesV[telem.TimeStamp](telem.TimeStamp(ts)))
			default:
				series = append(series, telem.NewSeriesV[int64](tag))
			}
		}
		return telem.MultiFrame(keys, series)
	}
	doOp := func(i int, o opT) opRes {
		switch o.Op {
		case "open_writer":
			if _, dup := cs.writers[o.W]; dup {
				return opRes{E: "skip"}
			}
			return run(fmt.Sprintf("op %d OpenWriter", i), func() opRes {
				// a writer on a data channel without its index ("index-less") writes against
				// index samples that already exist: it starts at the first of them
				start := tsBase + cs.tsN + 1
				for _, k := range o.Chans {
					if cs.kinds[k] == "d" {
						has := false
						for _, k2 := range o.Chans {
							if cs.kinds[k2] == "i" {
								has = true
							}
						}
						if !has {
							start = tsBase + 1
						}
					}
				}
				cfg := cesium.WriterConfig{
					Start: telem.TimeStamp(start), Mode: mode(o.Mode), Sync: new(true),
					ControlSubject: xcontrol.Subject{Key: fmt.Sprintf("w%d", o.W), Name: fmt.Sprintf("w%d", o.W)},
				}
				for _, k := range o.Chans {
					cfg.Channels = append(cfg.Channels, cesium.ChannelKey(k))
				}
				for _, a := range o.Auths {
					cfg.Authorities = append(cfg.Authorities, xcontrol.Authority(a))
				}
				if o.Auto {
					// cesium opens the index of the data channels implicitly, stamps every frame
					// that omits the index series, and starts at telem.Now()
					cfg.AutoIndex = new(true)
					cfg.Start = 0
				}
				w, err := db.OpenWriter(ctx, cfg)
				if err != nil {
					return opRes{E: errClass(err)}
				}
				ws := &wstate{w: w, chans: map[uint32]bool{}, auto: o.Auto, persist: o.Mode != "so"}
				for _, k := range o.Chans {
					ws.chans[k] = true
				}
				cs.writers[o.W] = ws
				return opRes{}
			})
		case "close_writer":
			ws, ok := cs.writers[o.W]
			if !ok || ws.closed || ws.bgActive {
				return opRes{E: "skip"}
			}
			ws.closed = true
			return run(fmt.Sprintf("op %d Writer.Close", i), func() opRes {
				return opRes{E: errClass(ws.w.Close())}
			})
		case "set_auth":
			ws, ok := cs.writers[o.W]
			if !ok || ws.closed || ws.bgActive {
				return opRes{E: "skip"}
			}
			return run(fmt.Sprintf("op %d Writer.SetAuthority", i), func() opRes {
				err := ws.w.SetAuthority(cesium.WriterConfig{Authorities: []xcontrol.Authority{xcontrol.Authority(o.Auth)}})
				if err != nil {
					ws.closed = true
				}
				return opRes{E: errClass(err)}
			})
		case "write":
			ws, ok := cs.writers[o.W]
			if !ok || ws.closed || ws.bgActive {
				return opRes{E: "skip"}
			}
			fr := mkFrame(o.W, ws, o.Keys, o.Bad)
			return run(fmt.Sprintf("op %d Writer.Write", i), func() opRes {
				a, err := ws.w.Write(fr)
				if err != nil {
					ws.closed = true
				}
				return opRes{E: errClass(err), A: a}
			})
		case "bg_writes":
			ws, ok := cs.writers[o.W]
			if !ok || ws.closed || ws.bgActive {
				return opRes{E: "skip"}
			}
			ws.bgActive, ws.bgDone, ws.bgErr, ws.bgMaxMs = true, make(chan struct{}), "", 0
			kss := o.Kss
			w := o.W
			go func() {
				defer close(ws.bgDone)
				defer func() {
					if r := recover(); r != nil {
						ws.bgErr = fmt.Sprint("panic: ", r)
					}
				}()
				for _, ks := range kss {
					fr := mkFrame(w, ws, ks, false)
					t0 := time.Now()
					_, err := ws.w.Write(fr)
					if ms := time.Since(t0).Milliseconds(); ms > ws.bgMaxMs {
						ws.bgMaxMs = ms
					}
					if err != nil {
						ws.bgErr = errClass(err)
						return
					}
				}
			}()
			return opRes{}
		case "join":
			ws, ok := cs.writers[o.W]
			if !ok || !ws.bgActive {
				return opRes{E: "skip"}
			}
			return run(fmt.Sprintf("op %d join of writer %d's background Writer.Write calls", i, o.W), func() opRes {
				<-ws.bgDone
				ws.bgActive = false
				if ws.bgMaxMs > res.MaxMs {
					res.MaxMs = ws.bgMaxMs
				}
				if ws.bgErr != "" {
					ws.closed = true
					return opRes{E: "bg:" + ws.bgErr}
				}
				return opRes{}
			})
		case "open_streamer":
			if _, dup := cs.strs[o.S]; dup {
				return opRes{E: "skip"}
			}
			return run(fmt.Sprintf("op %d NewStreamer+Flow", i), func() opRes {
				keys, root := toKeys(o.Keys, 0), o.S
				if o.Share > 0 {
					if sh, ok := cs.strs[o.Share]; ok && sh.keys != nil {
						keys, root = sh.keys, sh.root // the same slice value, same backing array
					}
				}
				keysCopy := append([]cesium.ChannelKey{}, keys...)
				st, err := db.NewStreamer(ctx, cesium.StreamerConfig{Channels: keys})
				if err != nil {
					return opRes{E: errClass(err)}
				}
				in := confluence.NewStream[cesium.StreamerRequest](64)
				out := confluence.NewStream[cesium.StreamerResponse](c.Cfg.OutBuf)
				st.InFrom(in)
				st.OutTo(out)
				sctx, cancel := signal.Isolated()
				st.Flow(sctx, confluence.CloseOutputInletsOnExit())
				s := &sstate{id: o.S, in: in, out: out, cancel: cancel, connected: true, items: []item{},
					keys: keys, keysCopy: keysCopy, root: root}
				cs.mu.Lock()
				cs.strs[o.S] = s
				cs.order = append(cs.order, o.S)
				cs.mu.Unlock()
				go cs.consume(s)
				return opRes{}
			})
		case "resub":
			s, ok := cs.strs[o.S]
			if !ok || s.closeReq {
				return opRes{E: "skip"}
			}
			return run(fmt.Sprintf("op %d streamer re-subscribe", i), func() opRes {
				cs.mu.Lock()
				s.expParity++
				par := s.expParity
				cs.mu.Unlock()
				s.in.Inlet() <- cesium.StreamerRequest{Channels: toKeys(o.Keys, par)}
				return opRes{}
			})
		case "close_streamer":
			s, ok := cs.strs[o.S]
			if !ok || s.closeReq {
				return opRes{E: "skip"}
			}
			return run(fmt.Sprintf("op %d streamer close", i), func() opRes {
				cs.mu.Lock()
				s.closeReq = true
				s.paused = false
				cs.cond.Broadcast()
				cs.mu.Unlock()
				s.in.Close()
				okc := cs.waitCond(hangBound, func() bool { return s.outClosed })
				return opRes{A: okc}
			})
		case "pause", "resume":
			s, ok := cs.strs[o.S]
			if !ok || s.closeReq {
				return opRes{E: "skip"}
			}
			cs.mu.Lock()
			s.paused = o.Op == "pause"
			cs.cond.Broadcast()
			cs.mu.Unlock()
			return opRes{}
		case "settle":
			// timing only (no meaning in the model): let the goroutines run for a while
			ms := o.Auth
			if ms <= 0 || ms > 2000 {
				ms = 100
			}
			time.Sleep(time.Duration(ms) * time.Millisecond)
			return opRes{E: "settle"}
		case "sync":
			var msg string
			r := run(fmt.Sprintf("op %d sync barrier", i), func() opRes {
				msg = cs.syncBarrier()
				return opRes{}
			})
			if msg != "" {
				fail(&res.Hang, fmt.Sprintf("op %d: %s", i, msg))
				hung = true
			}
			return r
		case "close_db":
			if cs.dbClosed {
				return opRes{E: "skip"}
			}
			return run(fmt.Sprintf("op %d DB.Close", i), func() opRes {
				cs.dbClosed = true
				err := db.Close()
				e := ""
				if err != nil {
					e = "err"
				}
				// The relay is gone. Streamers left open now spin on their closed relay
				// outlet; closing their inlets parks them (their disconnect can never
				// rendezvous), after they have forwarded what they hold.
				cs.mu.Lock()
				for _, s := range cs.strs {
					if !s.closeReq {
						s.closeReq = true
						s.paused = false
						s.in.Close()
					}
				}
				cs.cond.Broadcast()
				cs.mu.Unlock()
				return opRes{E: e}
			})
		}
		return opRes{E: "skip"}
	}
	for i, o := range c.Ops {
		res.Ops = append(res.Ops, doOp(i, o))
		if hung {
			break
		}
	}
	// ---- teardown phase 1 (part of the script handed to the model): resume every
	// consumer, then a final barrier; afterwards the observations are snapshotted.
	if !hung {
		tear := []opT{}
		bgw := []int{}
		for id, ws := range cs.writers {
			if ws.bgActive {
				bgw = append(bgw, id)
			}
		}
		sort.Ints(bgw)
		for _, id := range bgw {
			tear = append(tear, opT{Op: "join", W: id})
		}
		if !cs.dbClosed {
			ids := append([]int{}, cs.order...)
			sort.Ints(ids)
			for _, id := range ids {
				if id >= 0 {
					tear = append(tear, opT{Op: "resume", S: id})
				}
			}
			tear = append(tear, opT{Op: "sync"})
		}
		for j, o := range tear {
			res.TearOps = append(res.TearOps, o)
			res.Ops = append(res.Ops, doOp(len(c.Ops)+j, o))
			if hung {
				break
			}
		}
	}
	if !hung && cs.dbClosed {
		// relay is gone; give the streamer goroutines time to hand over what they hold:
		// wait until no consumer has recorded anything for 150 ms
		last, lastT := -1, time.Now()
		for time.Since(lastT) < 150*time.Millisecond {
			n := 0
			cs.mu.Lock()
			for _, s := range cs.strs {
				n += len(s.items)
			}
			cs.mu.Unlock()
			if n != last {
				last, lastT = n, time.Now()
			}
			time.Sleep(2 * time.Millisecond)
		}
	}
	cs.mu.Lock()
	cs.verifyFrames(!hung && !cs.dbClosed)
	for _, id := range cs.order {
		s := cs.strs[id]
		if id < 0 {
			continue
		}
		res.Streams = append(res.Streams, streamRes{S: id, Items: append([]item{}, s.items...)})
	}
	if cs.anomaly != "" {
		a := cs.anomaly
		res.Anomaly = &a
	}
	res.Syncs = cs.syncs
	cs.mu.Unlock()
	sort.Slice(res.Streams, func(a, b int) bool { return res.Streams[a].S < res.Streams[b].S })
	if hung {
		// best effort, in the background: do not wait for a wedged pipeline
		go func() {
			for _, s := range cs.strs {
				s.cancel()
			}
		}()
		return res
	}
	for _, id := range cs.order {
		s := cs.strs[id]
		if s.closeReq {
			s.cancel()
			continue
		}
		res.Tear = append(res.Tear, run(fmt.Sprintf("teardown close of streamer %d", id), func() opRes {
			cs.mu.Lock()
			s.closeReq = true
			cs.mu.Unlock()
			s.in.Close()
			return opRes{A: cs.waitCond(hangBound, func() bool { return s.outClosed })}
		}))
		if hung {
			return res
		}
	}
	wids := make([]int, 0, len(cs.writers))
	for id := range cs.writers {
		wids = append(wids, id)
	}
	sort.Ints(wids)
	for _, id := range wids {
		ws := cs.writers[id]
		if ws.closed {
			continue
		}
		res.Tear = append(res.Tear, run(fmt.Sprintf("teardown close of writer %d", id), func() opRes {
			return opRes{E: errClass(ws.w.Close())}
		}))
		if hung {
			return res
		}
	}
	// what was streamed is what was persisted: the auto-generated index timestamps relayed for
	// the writes of persisting auto-index writers are samples of the index channel
	if !cs.dbClosed && len(cs.autoTs) > 0 {
		var idxKeys []cesium.ChannelKey
		for _, d := range c.Cfg.Chans {
			if d.Kind == "i" {
				idxKeys = append(idxKeys, cesium.ChannelKey(d.K))
			}
		}
		res.Tear = append(res.Tear, run("teardown read of the index channel", func() opRes {
			fr, err := db.Read(ctx, telem.TimeRangeMax, idxKeys...)
			if err != nil {
				return opRes{E: errClass(err)}
			}
			have := map[int64]bool{}
			for _, ser := range fr.Entries() {
				for j := 0; j < int(ser.Len()); j++ {
					have[telem.ValueAt[int64](ser, j)] = true
				}
			}
			for tg, ts := range cs.autoTs {
				ws := cs.writers[tg[0]]
				if ws != nil && ws.auto && ws.persist && !have[ts] && res.Anomaly == nil {
					a := fmt.Sprintf("write (%d,%d) of a persisting auto-index writer was streamed with index timestamp %d, which is not a sample of the persisted index channel", tg[0], tg[1], ts)
					res.Anomaly = &a
				}
			}
			return opRes{}
		}))
	}
	res.Tear = append(res.Tear, run("teardown close of probe writer", func() opRes { return opRes{E: errClass(cs.probe.Close())} }))
	if !cs.dbClosed && !hung {
		res.Tear = append(res.Tear, run("teardown DB.Close", func() opRes {
			cs.dbClosed = true
			if err := db.Close(); err != nil {
				return opRes{E: "err:" + strings.SplitN(err.Error(), "\n", 2)[0]}
			}
			return opRes{}
		}))
	}
	// The key slices handed to NewStreamer belong to the caller: cesium must not have written
	// to them. Checked only for slices all of whose streamers have exited (their outlets
	// are closed, which orders everything they did before this read).
	cs.mu.Lock()
	groupDone := map[int]bool{}
	for _, s := range cs.strs {
		if s.keys == nil {
			continue
		}
		if _, seen := groupDone[s.root]; !seen {
			groupDone[s.root] = true
		}
		if !s.outClosed {
			groupDone[s.root] = false
		}
	}
	for _, id := range cs.order {
		s := cs.strs[id]
		if s.keys == nil || !groupDone[s.root] || res.Anomaly != nil {
			continue
		}
		same := len(s.keys) == len(s.keysCopy)
		for j := 0; same && j < len(s.keys); j++ {
			same = s.keys[j] == s.keysCopy[j]
		}
		if !same {
			a := fmt.Sprintf("the key slice streamer %d was opened from (first used by streamer %d) was modified by cesium: %v, was %v", s.id, s.root, s.keys, s.keysCopy)
			res.Anomaly = &a
		}
	}
	cs.mu.Unlock()
	for _, s := range cs.strs {
		s.cancel()
	}
	return res
}

func main() {
	if v := os.Getenv("C20_HANG_MS"); v != "" {
		var ms int
		fmt.Sscan(v, &ms)
		if ms > 0 {
			hangBound = time.Duration(ms) * time.Millisecond
		}
	}
	workers := 4
	if v := os.Getenv("C20_WORKERS"); v != "" {
		fmt.Sscan(v, &workers)
	}
	in := bufio.NewReaderSize(os.Stdin, 1<<20)
	out := bufio.NewWriter(os.Stdout)
	var (
		omu  sync.Mutex
		wg   sync.WaitGroup
		jobs = make(chan tcase)
	)
	for i := 0; i < workers; i++ {
		wg.Add(1)
		go func() {
			defer wg.Done()
			for c := range jobs {
				r := runCase(c)
				b, _ := json.Marshal(r)
				omu.Lock()
				out.Write(b)
				out.WriteByte('\n')
				out.Flush()
				omu.Unlock()
			}
		}()
	}
	for {
		line, err := in.ReadBytes('\n')
		if len(strings.TrimSpace(string(line))) > 0 {
			var c tcase
			if e := json.Unmarshal(line, &c); e != nil {
				fmt.Fprintln(os.Stderr, "bad case:", e)
			} else {
				jobs <- c
			}
		}
		if err != nil {
			break
		}
	}
	close(jobs)
	wg.Wait()
}
