//go:build verif

// Command c05 drives the real cesium control package (Controller / region / Gate) and,
// for the end-to-end cases, the public cesium writer API. Line protocol: one JSON case
// per stdin line, one JSON result per stdout line.
//
//	kind "ctl"  : sequential script over one Controller; after every op the full
//	              observable state is dumped.
//	kind "conc" : the per-goroutine scripts run concurrently; every call is recorded
//	              with logical call/return stamps (validation only).
//	kind "e2e"  : two or more cesium writers on one index channel (see e2e.go).
package main

import (
	"bufio"
	"encoding/json"
	"fmt"
	"os"
	"sort"
	"strconv"
	"strings"
	"sync"
	"sync/atomic"

	"github.com/synnaxlabs/cesium/internal/control"
	xcontrol "github.com/synnaxlabs/x/control"
	"github.com/synnaxlabs/x/errors"
	"github.com/synnaxlabs/x/telem"
	"github.com/synnaxlabs/x/validate"
)

type resource struct{ key uint32 }

func (r resource) ChannelKey() uint32 { return r.key }

type opT struct {
	Op      string `json:"op"`
	H       int    `json:"h"`
	Subj    int    `json:"subj"`
	Auth    int    `json:"auth"`
	S       int64  `json:"s"`
	E       int64  `json:"e"`
	Eic     bool   `json:"eic"`
	Eou     bool   `json:"eou"`
	ResFail bool   `json:"resfail"`
}

type tcase struct {
	ID      int     `json:"id"`
	Kind    string  `json:"kind"`
	Shared  bool    `json:"shared"`
	Ops     []opT   `json:"ops"`
	Threads [][]opT `json:"threads"`
	E2E     *e2eCase `json:"e2e"`
	Rounds  int      `json:"rounds"`
	E2EV    *e2evCase `json:"e2ev"`
	E2EG    *e2egCase `json:"e2eg"`
	E2EC    *e2egCase `json:"e2ec"`
}

// state as [subj, auth, resource]; nil pointer -> nil slice (JSON null)
func encState(s *control.State) []int {
	if s == nil {
		return nil
	}
	return []int{subjNum(s.Subject.Key), int(s.Authority), int(s.Resource)}
}

func subjKey(n int) string {
	if n == 0 {
		return ""
	}
	return "s" + strconv.Itoa(n)
}

func subjNum(k string) int {
	if len(k) < 2 {
		return 0
	}
	n, _ := strconv.Atoi(k[1:])
	return n
}

func errClass(err error) string {
	switch {
	case err == nil:
		return "ok"
	case errors.Is(err, xcontrol.ErrUnauthorized):
		return "unauth"
	case errors.Is(err, validate.ErrValidation):
		return "valid"
	case errors.Is(err, errResource):
		return "resfail"
	case errors.As(err, &validate.PathError{}):
		return "config"
	case strings.Contains(err.Error(), "multiple control regions"):
		return "multi"
	default:
		return "other"
	}
}

var errResource = errors.New("verif: resource could not be opened")

type stepOut struct {
	St      string   `json:"st"`
	Gate    bool     `json:"gate"`
	From    []int    `json:"from"`
	To      []int    `json:"to"`
	Res     int      `json:"res"`
	Gates   [][]int  `json:"gates"`
	Lead    []int    `json:"lead"`
	Regions [][]any  `json:"regions"`
}

type result struct {
	ID    int       `json:"id"`
	Outs  []stepOut `json:"outs,omitempty"`
	Hist  [][]any   `json:"hist,omitempty"`
	E2E   *e2eOut   `json:"e2e,omitempty"`
	Race  *e2eRaceOut `json:"e2erace,omitempty"`
	E2EG  *e2egOut    `json:"e2eg,omitempty"`
	E2EC  *e2egOut    `json:"e2ec,omitempty"`
	Panic *string   `json:"panic"`
}

type ctlRun struct {
	c       *control.Controller[resource]
	nextRes uint32
	gates   map[int]*control.Gate[resource]
	mu      sync.Mutex // protects gates / nextRes in the concurrent mode
}

func newRun(shared bool) *ctlRun {
	cfg := control.Config{Concurrency: xcontrol.ConcurrencyExclusive}
	if shared {
		cfg.Concurrency = xcontrol.ConcurrencyShared
	}
	c, err := control.New[resource](cfg)
	if err != nil {
		panic(err)
	}
	return &ctlRun{c: c, gates: map[int]*control.Gate[resource]{}}
}

func (r *ctlRun) open(o opT) (*control.Gate[resource], control.Transfer, error) {
	eic, eou := o.Eic, o.Eou
	return r.c.OpenGate(control.GateConfig[resource]{
		Subject:               xcontrol.Subject{Key: subjKey(o.Subj)},
		Authority:             xcontrol.Authority(o.Auth),
		TimeRange:             telem.TimeRange{Start: telem.TimeStamp(o.S), End: telem.TimeStamp(o.E)},
		ErrIfControlled:       &eic,
		ErrOnUnauthorizedOpen: &eou,
		OpenResource: func() (resource, error) {
			if o.ResFail {
				return resource{}, errResource
			}
			n := atomic.AddUint32(&r.nextRes, 1)
			return resource{key: n}, nil
		},
	})
}

func (r *ctlRun) dump(out *stepOut) {
	hs := make([]int, 0, len(r.gates))
	for h := range r.gates {
		hs = append(hs, h)
	}
	sort.Ints(hs)
	out.Gates = make([][]int, 0, len(hs))
	for _, h := range hs {
		g := r.gates[h]
		res, err := g.Authorize()
		az := 0
		if err == nil {
			az = 1
		} else if !errors.Is(err, xcontrol.ErrUnauthorized) {
			az = 2
		}
		out.Gates = append(out.Gates, []int{h, subjNum(g.Subject().Key), int(g.Authority()),
			int(g.PeekResource().key), az, int(res.key)})
	}
	out.Lead = encState(r.c.LeadingState())
	d := r.c.VerifDump()
	out.Regions = make([][]any, 0, len(d))
	for _, vr := range d {
		// gates in precedence order of open (by position, never the absolute value)
		sort.Slice(vr.Gates, func(a, b int) bool {
			if vr.Gates[a].Position != vr.Gates[b].Position {
				return vr.Gates[a].Position < vr.Gates[b].Position
			}
			return vr.Gates[a].Subject < vr.Gates[b].Subject
		})
		gs := make([][]int, 0, len(vr.Gates))
		for _, g := range vr.Gates {
			gs = append(gs, []int{subjNum(g.Subject), int(g.Authority)})
		}
		curr := []int{}
		if vr.HasCurr {
			in := 0
			if vr.CurrInGates {
				in = 1
			}
			curr = []int{subjNum(vr.Curr.Subject), int(vr.Curr.Authority), in}
		}
		out.Regions = append(out.Regions, []any{vr.Start, vr.End, int(vr.Resource), curr, gs})
	}
}

func runCtl(c tcase) (outs []stepOut) {
	r := newRun(c.Shared)
	used := map[int]bool{}
	for _, o := range c.Ops {
		var out stepOut
		switch o.Op {
		case "open":
			// a handle names one *Gate object for the whole script
			if used[o.H] {
				out.St = "skip"
				break
			}
			used[o.H] = true
			g, t, err := r.open(o)
			out.St = errClass(err)
			out.Gate = g != nil
			out.From, out.To = encState(t.From), encState(t.To)
			if g != nil && err == nil {
				r.gates[o.H] = g
			}
		case "set":
			g, ok := r.gates[o.H]
			if !ok {
				out.St = "skip"
				break
			}
			t := g.SetAuthority(xcontrol.Authority(o.Auth))
			out.St = "ok"
			out.From, out.To = encState(t.From), encState(t.To)
		case "release":
			g, ok := r.gates[o.H]
			if !ok {
				out.St = "skip"
				break
			}
			res, t := g.Release()
			delete(r.gates, o.H)
			out.St = "ok"
			out.Res = int(res.key)
			out.From, out.To = encState(t.From), encState(t.To)
		default:
			out.St = "skip"
		}
		r.dump(&out)
		outs = append(outs, out)
	}
	return outs
}

// ---- concurrent mode: each thread runs its own script on its own handles ----------

func runConc(c tcase) (hist [][]any) {
	r := newRun(c.Shared)
	var clock int64
	var hmu sync.Mutex
	var wg sync.WaitGroup
	start := make(chan struct{})
	for ti, ops := range c.Threads {
		wg.Add(1)
		go func(ti int, ops []opT) {
			defer wg.Done()
			mine := map[int]*control.Gate[resource]{}
			used := map[int]bool{}
			<-start
			for oi, o := range ops {
				var st string
				var from, to []int
				az := -1
				call := atomic.AddInt64(&clock, 1)
				switch o.Op {
				case "open":
					if used[o.H] {
						st = "skip"
						break
					}
					used[o.H] = true
					g, t, err := r.open(o)
					st = errClass(err)
					from, to = encState(t.From), encState(t.To)
					if g != nil && err == nil {
						mine[o.H] = g
					}
				case "set":
					g, ok := mine[o.H]
					if !ok {
						st = "skip"
						break
					}
					t := g.SetAuthority(xcontrol.Authority(o.Auth))
					st = "ok"
					from, to = encState(t.From), encState(t.To)
				case "release":
					g, ok := mine[o.H]
					if !ok {
						st = "skip"
						break
					}
					_, t := g.Release()
					delete(mine, o.H)
					st = "ok"
					from, to = encState(t.From), encState(t.To)
				case "auth":
					g, ok := mine[o.H]
					if !ok {
						st = "skip"
						break
					}
					_, err := g.Authorize()
					st = "ok"
					az = 0
					if err == nil {
						az = 1
					}
				default:
					st = "skip"
				}
				ret := atomic.AddInt64(&clock, 1)
				hmu.Lock()
				hist = append(hist, []any{ti, oi, call, ret, st, from, to, az})
				hmu.Unlock()
			}
		}(ti, ops)
	}
	close(start)
	wg.Wait()
	sort.Slice(hist, func(a, b int) bool { return hist[a][2].(int64) < hist[b][2].(int64) })
	return hist
}

func runCase(c tcase) (res result) {
	res.ID = c.ID
	defer func() {
		if r := recover(); r != nil {
			s := fmt.Sprint(r)
			res.Panic = &s
		}
	}()
	switch c.Kind {
	case "conc":
		res.Hist = runConc(c)
	case "e2e":
		res.E2E = runE2E(c.E2E)
	case "e2ev":
		res.E2E = runE2EV(c.E2EV)
	case "e2eg":
		res.E2EG = runE2EG(c.E2EG)
	case "e2ec":
		res.E2EC = runE2EG(c.E2EC)
	case "e2erace":
		res.Race = runE2ERace(c.Rounds)
	case "ctlrace":
		res.Race = runCtlRace(c.Rounds)
	case "ctlwrap":
		res.Race = runCtlWrap(c.Rounds)
	default:
		res.Outs = runCtl(c)
	}
	return res
}

func main() {
	in := bufio.NewReaderSize(os.Stdin, 1<<20)
	out := bufio.NewWriter(os.Stdout)
	defer out.Flush()
	dec := json.NewDecoder(in)
	enc := json.NewEncoder(out)
	for {
		var c tcase
		if err := dec.Decode(&c); err != nil {
			return
		}
		_ = enc.Encode(runCase(c))
		out.Flush()
	}
}

// runCtlRace: a gate is released while another one is opened on the same range. If the
// release reports that nobody is left in control (the region's resource is handed back
// to the caller for disposal), the gate opened concurrently must not be given that same
// resource: in every sequential order it either joined before the release (and then
// receives control from it) or opened a fresh region afterwards.
func runCtlRace(rounds int) *e2eRaceOut {
	out := &e2eRaceOut{Rounds: rounds, Failures: []string{}}
	r := newRun(false)
	for i := 0; i < rounds; i++ {
		gA, _, err := r.open(opT{Subj: 1, Auth: 100, S: 0, E: int64(telem.TimeStampMax)})
		if err != nil {
			out.Failures = append(out.Failures, fmt.Sprintf("round %d: open A: %v", i, err))
			break
		}
		var (
			gB   *control.Gate[resource]
			tA   control.Transfer
			resA resource
			errB error
			wg   sync.WaitGroup
		)
		wg.Add(2)
		go func() { defer wg.Done(); resA, tA = gA.Release() }()
		go func() {
			defer wg.Done()
			gB, _, errB = r.open(opT{Subj: 2, Auth: 100, S: 0, E: int64(telem.TimeStampMax)})
		}()
		wg.Wait()
		if errB != nil {
			out.Failures = append(out.Failures, fmt.Sprintf("round %d: open B: %v", i, errB))
			break
		}
		resB, errAz := gB.Authorize()
		if errAz != nil {
			out.Failures = append(out.Failures, fmt.Sprintf("round %d: B is the only open gate but is not authorized: %v", i, errAz))
		} else if tA.From != nil && tA.To == nil && resB.key == resA.key {
			out.Expected++
			if len(out.Failures) < 8 {
				out.Failures = append(out.Failures, fmt.Sprintf(
					"round %d: Release of A reported a full release of resource %d, yet the gate opened concurrently was attached to the same resource", i, resA.key))
			}
		}
		gB.Release()
	}
	return out
}

// runCtlWrap: a region that stays alive across more than 2^16 gate opens. Gate K (authority
// 5) is opened early, gate L (authority 5) after `cycles` further open/release pairs of a
// third subject; then a higher gate H opens and releases. Control must go back to K, the
// earliest-opened of the two highest gates, however many gates the region has seen.
func runCtlWrap(cycles int) *e2eRaceOut {
	out := &e2eRaceOut{Rounds: cycles, Failures: []string{}}
	r := newRun(false)
	mx := int64(telem.TimeStampMax)
	fail := func(f string, a ...any) { out.Failures = append(out.Failures, fmt.Sprintf(f, a...)) }
	churn := func(n int) bool {
		for i := 0; i < n; i++ {
			g, _, err := r.open(opT{Subj: 2, Auth: 1, S: 0, E: mx})
			if err != nil {
				fail("churn open: %v", err)
				return false
			}
			g.Release()
		}
		return true
	}
	if _, _, err := r.open(opT{Subj: 1, Auth: 1, S: 0, E: mx}); err != nil {
		fail("open X: %v", err)
		return out
	}
	if !churn(70) {
		return out
	}
	gK, _, err := r.open(opT{Subj: 3, Auth: 5, S: 0, E: mx})
	if err != nil {
		fail("open K: %v", err)
		return out
	}
	if !churn(cycles - 70) {
		return out
	}
	gL, tL, err := r.open(opT{Subj: 4, Auth: 5, S: 0, E: mx})
	if err != nil {
		fail("open L: %v", err)
		return out
	}
	if tL.Occurred() {
		fail("opening L (authority 5, opened after K) transferred control: %v", tL)
	}
	gH, _, err := r.open(opT{Subj: 5, Auth: 9, S: 0, E: mx})
	if err != nil {
		fail("open H: %v", err)
		return out
	}
	_, tH := gH.Release()
	if tH.To == nil || tH.To.Subject.Key != subjKey(3) {
		fail("after %d gate opens in the region, releasing the controller handed control to %v instead of the earliest-opened highest gate s3", cycles+4, tH.To)
	}
	if _, err := gK.Authorize(); err != nil {
		fail("K (earliest-opened highest gate) is not authorized: %v", err)
	}
	if _, err := gL.Authorize(); err == nil {
		fail("L (opened after K at the same authority) is authorized on an exclusive region")
	}
	return out
}
