//go:build verif

package main

import (
	"context"
	"fmt"
	"strconv"
	"sync"

	"github.com/synnaxlabs/cesium"
	xcontrol "github.com/synnaxlabs/x/control"
	xfs "github.com/synnaxlabs/x/io/fs"
	"github.com/synnaxlabs/x/telem"
)

// End-to-end variant: several cesium writers with different authorities on ONE index
// channel (exclusive or shared). Every write carries fresh, globally increasing time
// stamps; writers use Sync + auto-commit, so the observable is the authorized flag of
// each write and, at the end, what Read returns.

type e2eOp struct {
	Op   string `json:"op"` // open | write | set | close
	W    int    `json:"w"`
	Subj int    `json:"subj"`
	Auth int    `json:"auth"`
	N    int    `json:"n"`
	Eou  bool   `json:"eou"`
}

type e2eCase struct {
	Shared bool    `json:"shared"`
	Ops    []e2eOp `json:"ops"`
}

type e2eStep struct {
	St   string  `json:"st"`   // ok | unauth | skip | err
	Auth int     `json:"auth"` // write: 1 authorized, 0 not; else 2
	TS   []int64 `json:"ts"`   // write: the stamps carried by the frame (seconds)
	Err  string  `json:"err,omitempty"`
}

type e2eOut struct {
	Steps []e2eStep `json:"steps"`
	Read  []int64   `json:"read"`
	Err   string    `json:"err,omitempty"`
}

func runE2E(c *e2eCase) *e2eOut {
	out := &e2eOut{Read: []int64{}}
	ctx := context.Background()
	db, err := cesium.Open(ctx, "", cesium.WithFS(xfs.NewMem()))
	if err != nil {
		panic(err)
	}
	defer func() { _ = db.Close() }()
	const key cesium.ChannelKey = 7
	ch := cesium.Channel{Key: key, Name: "idx", IsIndex: true, DataType: telem.TimeStampT}
	if c.Shared {
		ch.Concurrency = xcontrol.ConcurrencyShared
	}
	if err := db.CreateChannel(ctx, ch); err != nil {
		panic(err)
	}
	writers := map[int]*cesium.Writer{}
	used := map[int]bool{}
	next := int64(10) // next unused stamp, in seconds
	for _, o := range c.Ops {
		st := e2eStep{St: "ok", Auth: 2, TS: []int64{}}
		switch o.Op {
		case "open":
			if used[o.W] {
				st.St = "skip"
				break
			}
			used[o.W] = true
			eou := o.Eou
			w, err := db.OpenWriter(ctx, cesium.WriterConfig{
				Channels:                 []cesium.ChannelKey{key},
				Start:                    telem.TimeStamp(next) * telem.SecondTS,
				Authorities:              []xcontrol.Authority{xcontrol.Authority(o.Auth)},
				ControlSubject:           xcontrol.Subject{Key: "s" + strconv.Itoa(o.Subj)},
				Sync:                     new(true),
				EnableAutoCommit:         new(true),
				AutoIndexPersistInterval: cesium.AlwaysIndexPersistOnAutoCommit,
				ErrOnUnauthorized:        &eou,
			})
			if err != nil {
				st.St = errClass(err)
				st.Err = err.Error()
				break
			}
			writers[o.W] = w
		case "write":
			w, ok := writers[o.W]
			if !ok {
				st.St = "skip"
				break
			}
			n := o.N
			if n < 1 {
				n = 1
			}
			stamps := make([]telem.TimeStamp, n)
			for i := range stamps {
				stamps[i] = telem.TimeStamp(next) * telem.SecondTS
				st.TS = append(st.TS, next)
				next++
			}
			auth, err := w.Write(telem.MultiFrame(
				[]cesium.ChannelKey{key}, []telem.Series{telem.NewSeriesV(stamps...)}))
			if err != nil {
				st.St = "err"
				st.Err = err.Error()
				break
			}
			st.Auth = 0
			if auth {
				st.Auth = 1
			}
		case "set":
			w, ok := writers[o.W]
			if !ok {
				st.St = "skip"
				break
			}
			if err := w.SetAuthority(cesium.WriterConfig{
				Authorities: []xcontrol.Authority{xcontrol.Authority(o.Auth)},
			}); err != nil {
				st.St = "err"
				st.Err = err.Error()
			}
		case "close":
			w, ok := writers[o.W]
			if !ok {
				st.St = "skip"
				break
			}
			delete(writers, o.W)
			if err := w.Close(); err != nil {
				st.St = "err"
				st.Err = err.Error()
			}
		default:
			st.St = "skip"
		}
		out.Steps = append(out.Steps, st)
	}
	for id, w := range writers {
		if err := w.Close(); err != nil {
			out.Err += fmt.Sprintf("close %d: %v; ", id, err)
		}
	}
	fr, err := db.Read(ctx, telem.TimeRangeMax, key)
	if err != nil {
		out.Err += "read: " + err.Error()
		return out
	}
	for k, s := range fr.Entries() {
		if k != key {
			continue
		}
		for _, v := range telem.UnmarshalSeries[telem.TimeStamp](s) {
			out.Read = append(out.Read, int64(v/telem.SecondTS))
		}
	}
	return out
}

// runE2ERace: validation of the concurrent clause at the cesium level. In every round one
// writer closes while another one opens on the same channel; whichever order the two calls
// take effect in, the second writer is the only open writer afterwards, so its write must be
// authorized, succeed and be readable.
type e2eRaceOut struct {
	Rounds   int      `json:"rounds"`
	Failures []string `json:"failures"`
	Read     int      `json:"read"`
	Expected int      `json:"expected"`
}

func runE2ERace(rounds int) *e2eRaceOut {
	out := &e2eRaceOut{Rounds: rounds, Failures: []string{}}
	ctx := context.Background()
	db, err := cesium.Open(ctx, "", cesium.WithFS(xfs.NewMem()))
	if err != nil {
		panic(err)
	}
	defer func() { _ = db.Close() }()
	const key cesium.ChannelKey = 7
	if err := db.CreateChannel(ctx, cesium.Channel{Key: key, Name: "idx", IsIndex: true, DataType: telem.TimeStampT}); err != nil {
		panic(err)
	}
	next := int64(10)
	open := func(subj string) (*cesium.Writer, error) {
		return db.OpenWriter(ctx, cesium.WriterConfig{
			Channels:                 []cesium.ChannelKey{key},
			Start:                    telem.TimeStamp(next) * telem.SecondTS,
			Authorities:              []xcontrol.Authority{100},
			ControlSubject:           xcontrol.Subject{Key: subj},
			Sync:                     new(true),
			EnableAutoCommit:         new(true),
			AutoIndexPersistInterval: cesium.AlwaysIndexPersistOnAutoCommit,
		})
	}
	write := func(w *cesium.Writer) (bool, error) {
		s := telem.NewSeriesV(telem.TimeStamp(next) * telem.SecondTS)
		next++
		return w.Write(telem.MultiFrame([]cesium.ChannelKey{key}, []telem.Series{s}))
	}
	fail := func(i int, f string, a ...any) {
		if len(out.Failures) < 8 {
			out.Failures = append(out.Failures, fmt.Sprintf("round %d: ", i)+fmt.Sprintf(f, a...))
		}
	}
	for i := 0; i < rounds; i++ {
		wA, err := open("a" + strconv.Itoa(i))
		if err != nil {
			fail(i, "open A: %v", err)
			break
		}
		if ok, err := write(wA); err != nil || !ok {
			fail(i, "write A: authorized=%v err=%v", ok, err)
		} else {
			out.Expected++
		}
		var (
			wB   *cesium.Writer
			errB error
			errA error
			wg   sync.WaitGroup
		)
		wg.Add(2)
		go func() { defer wg.Done(); errA = wA.Close() }()
		go func() { defer wg.Done(); wB, errB = open("b" + strconv.Itoa(i)) }()
		wg.Wait()
		if errA != nil {
			fail(i, "close A: %v", errA)
		}
		if errB != nil {
			fail(i, "open B: %v", errB)
			continue
		}
		if ok, err := write(wB); err != nil || !ok {
			fail(i, "write B (sole open writer): authorized=%v err=%v", ok, err)
		} else {
			out.Expected++
		}
		if err := wB.Close(); err != nil {
			fail(i, "close B: %v", err)
		}
	}
	fr, err := db.Read(ctx, telem.TimeRangeMax, key)
	if err != nil {
		fail(-1, "read: %v", err)
		return out
	}
	for k, s := range fr.Entries() {
		if k == key {
			out.Read += int(s.Len())
		}
	}
	if out.Read != out.Expected {
		fail(-1, "read %d samples, %d authorized writes succeeded", out.Read, out.Expected)
	}
	return out
}

// ---- end-to-end variant on VIRTUAL channels: every writer holds 1-3 virtual channels
// with per-channel authorities; a second writer may take over only some of them. The
// observable is the authorized flag of every (Sync) write, for frames listing the
// channels in any order.

type e2evOp struct {
	Op    string   `json:"op"` // open | write | set | close
	W     int      `json:"w"`
	Subj  int      `json:"subj"`
	Chans [][2]int `json:"chans"` // open/set: (channel 1..3, authority)
	Keys  []int    `json:"keys"`  // write: channels in frame order
	Eou   bool     `json:"eou"`
}

type e2evCase struct {
	Ops []e2evOp `json:"ops"`
}

func vkey(k int) cesium.ChannelKey { return cesium.ChannelKey(100 + k) }

func runE2EV(c *e2evCase) *e2eOut {
	out := &e2eOut{Read: []int64{}}
	ctx := context.Background()
	db, err := cesium.Open(ctx, "", cesium.WithFS(xfs.NewMem()))
	if err != nil {
		panic(err)
	}
	defer func() { _ = db.Close() }()
	for k := 1; k <= 3; k++ {
		if err := db.CreateChannel(ctx, cesium.Channel{
			Key: vkey(k), Name: "cmd" + strconv.Itoa(k), DataType: telem.Uint8T, Virtual: true,
		}); err != nil {
			panic(err)
		}
	}
	writers := map[int]*cesium.Writer{}
	used := map[int]bool{}
	split := func(ch [][2]int) ([]cesium.ChannelKey, []xcontrol.Authority) {
		ks := make([]cesium.ChannelKey, len(ch))
		as := make([]xcontrol.Authority, len(ch))
		for i, p := range ch {
			ks[i], as[i] = vkey(p[0]), xcontrol.Authority(p[1])
		}
		return ks, as
	}
	for _, o := range c.Ops {
		st := e2eStep{St: "ok", Auth: 2, TS: []int64{}}
		switch o.Op {
		case "open":
			if used[o.W] {
				st.St = "skip"
				break
			}
			used[o.W] = true
			ks, as := split(o.Chans)
			eou := o.Eou
			w, err := db.OpenWriter(ctx, cesium.WriterConfig{
				Channels:          ks,
				Start:             10 * telem.SecondTS,
				Authorities:       as,
				ControlSubject:    xcontrol.Subject{Key: "s" + strconv.Itoa(o.Subj)},
				Sync:              new(true),
				ErrOnUnauthorized: &eou,
			})
			if err != nil {
				st.St = errClass(err)
				st.Err = err.Error()
				break
			}
			writers[o.W] = w
		case "write":
			w, ok := writers[o.W]
			if !ok {
				st.St = "skip"
				break
			}
			ks := make([]cesium.ChannelKey, len(o.Keys))
			ss := make([]telem.Series, len(o.Keys))
			for i, k := range o.Keys {
				ks[i], ss[i] = vkey(k), telem.NewSeriesV[uint8](uint8(i+1))
			}
			auth, err := w.Write(telem.MultiFrame(ks, ss))
			if err != nil {
				st.St = "err"
				st.Err = err.Error()
				break
			}
			st.Auth = 0
			if auth {
				st.Auth = 1
			}
		case "set":
			w, ok := writers[o.W]
			if !ok {
				st.St = "skip"
				break
			}
			ks, as := split(o.Chans)
			if err := w.SetAuthority(cesium.WriterConfig{Channels: ks, Authorities: as}); err != nil {
				st.St = "err"
				st.Err = err.Error()
			}
		case "close":
			w, ok := writers[o.W]
			if !ok {
				st.St = "skip"
				break
			}
			delete(writers, o.W)
			if err := w.Close(); err != nil {
				st.St = "err"
				st.Err = err.Error()
			}
		default:
			st.St = "skip"
		}
		out.Steps = append(out.Steps, st)
	}
	for id, w := range writers {
		if err := w.Close(); err != nil {
			out.Err += fmt.Sprintf("close %d: %v; ", id, err)
		}
	}
	return out
}

// ---- end-to-end variant on INDEX GROUPS (+ virtual channels): units 1..3 are index groups
// (an index channel and one int64 data channel, exclusive control), units 4..5 are virtual
// channels (shared control). A writer holds a subset of the units with one authority per
// unit (applied to every channel of the unit); another writer may control only some of
// them. Observables: the authorized flag of every (Sync, auto-commit) write and, at the
// end, what Read returns for the index and the data channel of every group.

type e2egOp struct {
	Op    string   `json:"op"` // open | write | set | close
	W     int      `json:"w"`
	Subj  int      `json:"subj"`
	Units [][2]int `json:"units"` // open/set: (unit, authority)
	Keys  []int    `json:"keys"`  // write: units in frame order
	N     int      `json:"n"`
	Eou   bool     `json:"eou"`
	NoAC  bool     `json:"noac"` // open: auto-commit disabled, commits are explicit ops
}

type e2egCase struct {
	Ops []e2egOp `json:"ops"`
}

type e2egOut struct {
	Steps []e2eStep  `json:"steps"`
	Read  [][2][]int64 `json:"read"` // per group 1..3: (index stamps, data values)
	// for every stored series of every group channel: domain end (ns) minus the time of
	// its last sample (ns); a committed domain ends 1ns after its last sample
	EndGap []int64 `json:"endgap"`
	Err   string     `json:"err,omitempty"`
}

func gIdx(u int) cesium.ChannelKey  { return cesium.ChannelKey(200 + 10*u) }
func gData(u int) cesium.ChannelKey { return cesium.ChannelKey(201 + 10*u) }
func gVirt(u int) cesium.ChannelKey { return cesium.ChannelKey(300 + u) }

func unitChannels(units [][2]int) ([]cesium.ChannelKey, []xcontrol.Authority) {
	var (
		ks []cesium.ChannelKey
		as []xcontrol.Authority
	)
	for _, p := range units {
		a := xcontrol.Authority(p[1])
		if p[0] <= 3 {
			ks = append(ks, gIdx(p[0]), gData(p[0]))
			as = append(as, a, a)
		} else {
			ks = append(ks, gVirt(p[0]))
			as = append(as, a)
		}
	}
	return ks, as
}

func runE2EG(c *e2egCase) *e2egOut {
	out := &e2egOut{EndGap: []int64{}}
	ctx := context.Background()
	db, err := cesium.Open(ctx, "", cesium.WithFS(xfs.NewMem()))
	if err != nil {
		panic(err)
	}
	defer func() { _ = db.Close() }()
	for u := 1; u <= 3; u++ {
		if err := db.CreateChannel(ctx,
			cesium.Channel{Key: gIdx(u), Name: "idx" + strconv.Itoa(u), IsIndex: true, DataType: telem.TimeStampT},
			cesium.Channel{Key: gData(u), Name: "data" + strconv.Itoa(u), Index: gIdx(u), DataType: telem.Int64T},
		); err != nil {
			panic(err)
		}
	}
	for u := 4; u <= 5; u++ {
		if err := db.CreateChannel(ctx, cesium.Channel{
			Key: gVirt(u), Name: "cmd" + strconv.Itoa(u), DataType: telem.Uint8T, Virtual: true,
		}); err != nil {
			panic(err)
		}
	}
	writers := map[int]*cesium.Writer{}
	used := map[int]bool{}
	next := int64(10)
	for _, o := range c.Ops {
		st := e2eStep{St: "ok", Auth: 2, TS: []int64{}}
		switch o.Op {
		case "open":
			if used[o.W] {
				st.St = "skip"
				break
			}
			used[o.W] = true
			ks, as := unitChannels(o.Units)
			eou := o.Eou
			w, err := db.OpenWriter(ctx, cesium.WriterConfig{
				Channels:                 ks,
				Start:                    telem.TimeStamp(next) * telem.SecondTS,
				Authorities:              as,
				ControlSubject:           xcontrol.Subject{Key: "s" + strconv.Itoa(o.Subj)},
				Sync:                     new(true),
				EnableAutoCommit:         new(!o.NoAC),
				AutoIndexPersistInterval: cesium.AlwaysIndexPersistOnAutoCommit,
				ErrOnUnauthorized:        &eou,
			})
			if err != nil {
				st.St = errClass(err)
				st.Err = err.Error()
				break
			}
			writers[o.W] = w
		case "commit":
			w, ok := writers[o.W]
			if !ok {
				st.St = "skip"
				break
			}
			end, err := w.Commit()
			if err != nil {
				st.St = errClass(err)
				st.Err = err.Error()
				break
			}
			if end > 0 {
				// the reported end of the committed data: 1ns after a sample
				st.TS = append(st.TS, int64((end-1)/telem.SecondTS), int64((end-1)%telem.SecondTS))
			}
		case "write":
			w, ok := writers[o.W]
			if !ok {
				st.St = "skip"
				break
			}
			n := o.N
			if n < 1 {
				n = 1
			}
			stamps := make([]telem.TimeStamp, n)
			vals := make([]int64, n)
			for i := range stamps {
				stamps[i] = telem.TimeStamp(next) * telem.SecondTS
				vals[i] = next
				st.TS = append(st.TS, next)
				next++
			}
			var (
				ks []cesium.ChannelKey
				ss []telem.Series
			)
			for _, u := range o.Keys {
				if u <= 3 {
					ks = append(ks, gIdx(u), gData(u))
					ss = append(ss, telem.NewSeriesV(stamps...), telem.NewSeriesV(vals...))
				} else {
					ks = append(ks, gVirt(u))
					ss = append(ss, telem.NewSeriesV[uint8](uint8(u)))
				}
			}
			auth, err := w.Write(telem.MultiFrame(ks, ss))
			if err != nil {
				st.St = "err"
				st.Err = err.Error()
				break
			}
			st.Auth = 0
			if auth {
				st.Auth = 1
			}
		case "set":
			w, ok := writers[o.W]
			if !ok {
				st.St = "skip"
				break
			}
			ks, as := unitChannels(o.Units)
			if err := w.SetAuthority(cesium.WriterConfig{Channels: ks, Authorities: as}); err != nil {
				st.St = "err"
				st.Err = err.Error()
			}
		case "close":
			w, ok := writers[o.W]
			if !ok {
				st.St = "skip"
				break
			}
			delete(writers, o.W)
			if err := w.Close(); err != nil {
				st.St = "err"
				st.Err = err.Error()
			}
		default:
			st.St = "skip"
		}
		out.Steps = append(out.Steps, st)
	}
	for id, w := range writers {
		if err := w.Close(); err != nil {
			out.Err += fmt.Sprintf("close %d: %v; ", id, err)
		}
	}
	for u := 1; u <= 3; u++ {
		pair := [2][]int64{{}, {}}
		fr, err := db.Read(ctx, telem.TimeRangeMax, gIdx(u), gData(u))
		if err != nil {
			out.Err += "read: " + err.Error()
			return out
		}
		for k, s := range fr.Entries() {
			switch k {
			case gIdx(u):
				vs := telem.UnmarshalSeries[telem.TimeStamp](s)
				for _, v := range vs {
					pair[0] = append(pair[0], int64(v/telem.SecondTS))
				}
				if len(vs) > 0 {
					out.EndGap = append(out.EndGap, int64(s.TimeRange.End-vs[len(vs)-1]))
				}
			case gData(u):
				vs := telem.UnmarshalSeries[int64](s)
				pair[1] = append(pair[1], vs...)
				if len(vs) > 0 {
					out.EndGap = append(out.EndGap, int64(s.TimeRange.End)-vs[len(vs)-1]*int64(telem.SecondTS))
				}
			}
		}
		out.Read = append(out.Read, pair)
	}
	return out
}
