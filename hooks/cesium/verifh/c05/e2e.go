//go:build verif

package main

type e2eCase struct{}
type e2eOut struct{}

func runE2E(c *e2eCase) *e2eOut { return &e2eOut{} }
