//go:build verif

// Package cesh is the script interpreter shared by the C10 and C01 harnesses. It
// drives a real cesium.DB (in-memory FS) through a write script and offers helpers
// to encode/decode sample values per data type.
package cesh

import (
	"context"
	"encoding/binary"
	"fmt"
	"io"
	"math"
	"strconv"
	"strings"

	"github.com/synnaxlabs/cesium"
	"github.com/synnaxlabs/cesium/internal/domain"
	"github.com/synnaxlabs/cesium/internal/index"
	"github.com/synnaxlabs/x/control"
	"github.com/synnaxlabs/x/errors"
	xfs "github.com/synnaxlabs/x/io/fs"
	"github.com/synnaxlabs/x/query"
	"github.com/synnaxlabs/x/telem"
	"github.com/synnaxlabs/x/validate"
)

// Chan describes one channel; Index == 0 means the channel is an index channel.
type Chan struct {
	Key   uint32 `json:"key"`
	Index uint32 `json:"index"`
	DT    string `json:"dt"`
}

// KV is one series of a frame: channel key and sample values (stamps for an index).
type KV struct {
	K uint32  `json:"k"`
	V []int64 `json:"v"`
}

// SOp is one step of the write script.
type SOp struct {
	Op    string   `json:"op"` // open | write | commit | close | reopen | gc
	Keys  []uint32 `json:"keys"`
	Start int64    `json:"start"`
	Auto  bool     `json:"auto"`
	Frame []KV     `json:"frame"`
	// Fault on a write: the data-file Write of channel K is a short write (see Fault).
	Fault *WFault `json:"fault,omitempty"`
}

// WFault scripts a short write: channel key and the seed that fixes how many bytes get stored.
type WFault struct {
	K uint32 `json:"k"`
	J int64  `json:"j"`
}

type Setup struct {
	Cap      int64  `json:"cap"`
	Channels []Chan `json:"channels"`
	Script   []SOp  `json:"script"`
}

// Error classes reported to the runner.
const (
	EOk = iota
	EDiscontinuous
	EConflict
	EValidation
	ENotFound
	EEOF
	EClosed
	EUnauthorized
	EOther = 9
	// EInjected: the error of a scripted one-shot read fault (see Fault).
	EInjected = 99
)

func ErrClass(err error) int {
	switch {
	case err == nil:
		return EOk
	case errors.Is(err, ErrInjected):
		return EInjected
	case errors.Is(err, index.ErrDiscontinuous):
		return EDiscontinuous
	case errors.Is(err, domain.ErrWriteConflict):
		return EConflict
	case errors.Is(err, control.ErrUnauthorized):
		return EUnauthorized
	case errors.Is(err, validate.ErrValidation):
		return EValidation
	case errors.Is(err, query.ErrNotFound):
		return ENotFound
	case errors.Is(err, io.EOF):
		return EEOF
	case errors.Is(err, cesium.ErrWriterClosed):
		return EClosed
	}
	return EOther
}

// Env is a live database plus the channel table.
type Env struct {
	Ctx   context.Context
	FS    xfs.FS
	DB    *cesium.DB
	Cap   int64
	Chans map[uint32]Chan
	W     *cesium.Writer
	// Fault is the one-shot read fault of the file system the database runs on.
	Fault *Fault
}

func dataType(dt string) telem.DataType {
	switch dt {
	case "timestamp":
		return telem.TimeStampT
	case "int64":
		return telem.Int64T
	case "uint8":
		return telem.Uint8T
	case "float32":
		return telem.Float32T
	case "string":
		return telem.StringT
	case "json":
		return telem.JSONT
	}
	panic("unknown data type " + dt)
}

func (e *Env) open() error {
	opts := []cesium.Option{cesium.WithFS(e.FS)}
	if e.Cap > 0 {
		opts = append(opts, cesium.WithFileSizeCap(telem.Size(e.Cap)))
	}
	db, err := cesium.Open(e.Ctx, "db", opts...)
	if err != nil {
		return err
	}
	e.DB = db
	return nil
}

func NewEnv(s Setup) (*Env, error) {
	fault := &Fault{}
	e := &Env{Ctx: context.Background(), FS: NewFaultFS(xfs.NewMem(), fault), Cap: s.Cap, Chans: map[uint32]Chan{}, Fault: fault}
	if err := e.open(); err != nil {
		return nil, err
	}
	for _, c := range s.Channels {
		ch := cesium.Channel{Key: c.Key, Name: "c" + strconv.Itoa(int(c.Key)), DataType: dataType(c.DT)}
		if c.Index == 0 {
			ch.IsIndex = true
		} else {
			ch.Index = c.Index
		}
		if err := e.DB.CreateChannel(e.Ctx, ch); err != nil {
			return nil, err
		}
		e.Chans[c.Key] = c
	}
	return e, nil
}

// dataBytes is the total size of the channels' domain data files.
func (e *Env) dataBytes() (n int64) {
	for k := range e.Chans {
		dir := "db/" + strconv.Itoa(int(k))
		infos, err := e.FS.List(dir)
		if err != nil {
			continue
		}
		for _, i := range infos {
			if isDataFile(i.Name()) {
				n += i.Size()
			}
		}
	}
	return
}

func (e *Env) Close() {
	if e.W != nil {
		_ = e.W.Close()
		e.W = nil
	}
	if e.DB != nil {
		_ = e.DB.Close()
		e.DB = nil
	}
}

// StrOf is the canonical text of sample value v for the variable-length types.
// Its length varies with v (1..4 padding characters) so that byte offsets are not a
// multiple of anything. Value 0 is the zero-length sample (a length prefix only).
func StrOf(dt string, v int64) string {
	if v == 0 {
		return ""
	}
	if dt == "json" {
		return `{"v":` + strconv.FormatInt(v, 10) + strings.Repeat(" ", int(v%3)) + `}`
	}
	return "s" + strconv.FormatInt(v, 10) + strings.Repeat("x", int(v%4))
}

// Encode builds the series carrying values vs for a channel of type dt.
func Encode(dt string, vs []int64) telem.Series {
	switch dt {
	case "timestamp":
		ts := make([]telem.TimeStamp, len(vs))
		for i, v := range vs {
			ts[i] = telem.TimeStamp(v)
		}
		return telem.NewSeries(ts)
	case "int64":
		return telem.NewSeries(vs)
	case "uint8":
		b := make([]uint8, len(vs))
		for i, v := range vs {
			b[i] = uint8(v)
		}
		return telem.NewSeries(b)
	case "float32":
		f := make([]float32, len(vs))
		for i, v := range vs {
			f[i] = float32(v)
		}
		return telem.NewSeries(f)
	case "string":
		s := make([]string, len(vs))
		for i, v := range vs {
			s[i] = StrOf(dt, v)
		}
		return telem.NewSeries(s)
	case "json":
		bs := make([][]byte, len(vs))
		for i, v := range vs {
			bs[i] = []byte(StrOf(dt, v))
		}
		s := telem.NewSeries(bs)
		s.DataType = telem.JSONT
		return s
	}
	panic("unknown data type " + dt)
}

// Garbled marks bytes that do not decode to whole, canonical samples.
const Garbled = int64(-7)

// Decode maps raw series bytes back to sample values; any residue or non-canonical
// text yields a Garbled entry (which no stored sample ever equals).
func Decode(dt string, data []byte) []int64 {
	out := []int64{}
	fixed := func(w int, f func([]byte) int64) {
		n := len(data) / w
		for i := 0; i < n; i++ {
			out = append(out, f(data[i*w:(i+1)*w]))
		}
		if len(data)%w != 0 {
			out = append(out, Garbled)
		}
	}
	switch dt {
	case "timestamp", "int64":
		fixed(8, func(b []byte) int64 { return int64(binary.LittleEndian.Uint64(b)) })
	case "uint8":
		fixed(1, func(b []byte) int64 { return int64(b[0]) })
	case "float32":
		fixed(4, func(b []byte) int64 {
			f := math.Float32frombits(binary.LittleEndian.Uint32(b))
			v := int64(f)
			if float32(v) != f {
				return Garbled
			}
			return v
		})
	case "string", "json":
		off := 0
		for off < len(data) {
			if off+4 > len(data) {
				out = append(out, Garbled)
				break
			}
			l := int(binary.LittleEndian.Uint32(data[off:]))
			if off+4+l > len(data) {
				out = append(out, Garbled)
				break
			}
			s := string(data[off+4 : off+4+l])
			off += 4 + l
			if s == "" {
				out = append(out, 0)
				continue
			}
			var num string
			if dt == "json" {
				num = strings.TrimSuffix(strings.TrimPrefix(s, `{"v":`), "}")
				num = strings.TrimRight(num, " ")
			} else {
				num = strings.TrimRight(strings.TrimPrefix(s, "s"), "x")
			}
			v, err := strconv.ParseInt(num, 10, 64)
			if err != nil || StrOf(dt, v) != s {
				out = append(out, Garbled)
				continue
			}
			out = append(out, v)
		}
	}
	return out
}

// SRes is the outcome of one script step.
type SRes struct {
	Err int    `json:"err"`
	End int64  `json:"end"`
	Msg string `json:"msg,omitempty"`
}

// Step executes one script op against the real database.
func (e *Env) Step(o SOp) (r SRes) {
	fail := func(err error) SRes {
		c := ErrClass(err)
		r := SRes{Err: c}
		if c != EOk {
			r.Msg = err.Error()
			if len(r.Msg) > 160 {
				r.Msg = r.Msg[:160]
			}
		}
		return r
	}
	switch o.Op {
	case "open":
		if e.W != nil {
			_ = e.W.Close()
			e.W = nil
		}
		w, err := e.DB.OpenWriter(e.Ctx, cesium.WriterConfig{
			Channels:         o.Keys,
			Start:            telem.TimeStamp(o.Start),
			EnableAutoCommit: new(o.Auto),
			Sync:             new(true),
			Mode:             cesium.WriterModePersistOnly,
			ControlSubject:   control.Subject{Key: "verif"},
		})
		if err != nil {
			return fail(err)
		}
		e.W = w
		return SRes{}
	case "write":
		if e.W == nil {
			return SRes{Err: EClosed}
		}
		keys := make([]uint32, 0, len(o.Frame))
		series := make([]telem.Series, 0, len(o.Frame))
		for _, kv := range o.Frame {
			c, ok := e.Chans[kv.K]
			if !ok {
				return SRes{Err: ENotFound}
			}
			keys = append(keys, kv.K)
			series = append(series, Encode(c.DT, kv.V))
		}
		if o.Fault != nil {
			e.Fault.ArmShortWrite(o.Fault.K, o.Fault.J)
		}
		_, err := e.W.Write(telem.MultiFrame(keys, series))
		e.Fault.Disarm()
		if err != nil {
			e.W = nil
		}
		return fail(err)
	case "commit":
		if e.W == nil {
			return SRes{Err: EClosed}
		}
		end, err := e.W.Commit()
		if err != nil {
			e.W = nil
			return fail(err)
		}
		return SRes{End: int64(end)}
	case "close":
		if e.W == nil {
			return SRes{}
		}
		err := e.W.Close()
		e.W = nil
		return fail(err)
	case "gc":
		// one synchronous pass of the garbage collector the background ticker runs
		before := e.dataBytes()
		if err := e.DB.VerifC01GC(e.Ctx); err != nil {
			return fail(err)
		}
		// Msg only informs the coverage histogram: how many bytes the pass reclaimed
		return SRes{Msg: fmt.Sprintf("reclaimed=%d", before-e.dataBytes())}
	case "reopen":
		if e.W != nil {
			_ = e.W.Close()
			e.W = nil
		}
		if err := e.DB.Close(); err != nil {
			return fail(err)
		}
		e.DB = nil
		return fail(e.open())
	}
	return SRes{Err: EOther, Msg: fmt.Sprintf("unknown op %q", o.Op)}
}

// Ser is one returned series: clipped time range and decoded samples.
type Ser struct {
	S int64   `json:"s"`
	E int64   `json:"e"`
	D []int64 `json:"d"`
}

func SeriesOf(dt string, s telem.Series) Ser {
	return Ser{S: int64(s.TimeRange.Start), E: int64(s.TimeRange.End), D: Decode(dt, s.Data)}
}
