//go:build verif

package cesh

import (
	"bufio"
	"bytes"
	"encoding/json"
	"io"
	"os"
	"os/exec"
	"time"
)

// Serve runs the line protocol (one JSON case per stdin line, one JSON result per stdout
// line).  The cases are executed in a child process of the same binary so that a fatal
// runtime error of the code under test (stack overflow, deadlock, os.Exit) or a hang is
// reported for the case that caused it instead of losing the whole batch: the supervisor
// answers {"id":…, "panic":"process crashed: …"} and restarts the child.
func Serve(run func(line []byte) any) {
	if len(os.Args) > 1 && os.Args[1] == "-worker" {
		worker(run)
		return
	}
	supervise()
}

func worker(run func(line []byte) any) {
	in := bufio.NewReaderSize(os.Stdin, 1<<20)
	w := bufio.NewWriter(os.Stdout)
	for {
		line, err := in.ReadBytes('\n')
		if len(bytes.TrimSpace(line)) > 0 {
			b, _ := json.Marshal(run(line))
			w.Write(b)
			w.WriteString("\n")
			w.Flush()
		}
		if err != nil {
			return
		}
	}
}

type child struct {
	cmd    *exec.Cmd
	stdin  io.WriteCloser
	stdout *bufio.Reader
	stderr *bytes.Buffer
}

func spawn() (*child, error) {
	cmd := exec.Command(os.Args[0], "-worker")
	cmd.Env = append(os.Environ(), "GOTRACEBACK=single")
	si, err := cmd.StdinPipe()
	if err != nil {
		return nil, err
	}
	so, err := cmd.StdoutPipe()
	if err != nil {
		return nil, err
	}
	eb := &bytes.Buffer{}
	cmd.Stderr = &tailWriter{buf: eb, max: 1 << 16}
	if err := cmd.Start(); err != nil {
		return nil, err
	}
	return &child{cmd: cmd, stdin: si, stdout: bufio.NewReaderSize(so, 1<<20), stderr: eb}, nil
}

// tailWriter keeps only the first max bytes (the head of a Go crash report names the cause).
type tailWriter struct {
	buf *bytes.Buffer
	max int
}

func (t *tailWriter) Write(p []byte) (int, error) {
	if t.buf.Len() < t.max {
		n := t.max - t.buf.Len()
		if n > len(p) {
			n = len(p)
		}
		t.buf.Write(p[:n])
	}
	return len(p), nil
}

func supervise() {
	in := bufio.NewReaderSize(os.Stdin, 1<<20)
	out := bufio.NewWriter(os.Stdout)
	defer out.Flush()
	var ch *child
	for {
		line, rerr := in.ReadBytes('\n')
		if len(bytes.TrimSpace(line)) > 0 {
			if line[len(line)-1] != '\n' {
				line = append(line, '\n')
			}
			if ch == nil {
				var err error
				if ch, err = spawn(); err != nil {
					os.Stderr.WriteString("cannot spawn worker: " + err.Error() + "\n")
					os.Exit(2)
				}
			}
			type resp struct {
				b   []byte
				err error
			}
			done := make(chan resp, 1)
			go func(c *child) {
				_, _ = c.stdin.Write(line)
				b, err := c.stdout.ReadBytes('\n')
				done <- resp{b, err}
			}(ch)
			var r resp
			why := "process crashed: "
			select {
			case r = <-done:
			case <-time.After(150 * time.Second):
				_ = ch.cmd.Process.Kill()
				r = <-done
				r.err = io.ErrUnexpectedEOF
				why = "hang (no result within 150 s): "
			}
			if r.err != nil || len(bytes.TrimSpace(r.b)) == 0 {
				_ = ch.cmd.Process.Kill()
				_ = ch.cmd.Wait()
				var id struct {
					ID int `json:"id"`
				}
				_ = json.Unmarshal(line, &id)
				msg := ch.stderr.String()
				if len(msg) > 600 {
					msg = msg[:600]
				}
				b, _ := json.Marshal(map[string]any{"id": id.ID, "panic": why + msg})
				out.Write(b)
				out.WriteString("\n")
				ch = nil
			} else {
				out.Write(r.b)
			}
			out.Flush()
		}
		if rerr != nil {
			break
		}
	}
	if ch != nil {
		_ = ch.stdin.Close()
		_ = ch.cmd.Wait()
	}
}
