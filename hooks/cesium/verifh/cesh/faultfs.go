//go:build verif

package cesh

import (
	"path"
	"strconv"
	"strings"
	"sync"

	"github.com/synnaxlabs/x/errors"
	xfs "github.com/synnaxlabs/x/io/fs"
)

// ErrInjected is the error a scripted one-shot read fault returns.
var ErrInjected = errors.New("verif: injected I/O error")

// Fault is a scripted ONE-SHOT read fault: once armed for a channel, the n-th ReadAt on one
// of that channel's data files (<channel dir>/<k>.domain) fails with ErrInjected; every
// other operation passes through unchanged.
type Fault struct {
	mu        sync.Mutex
	dir       string // base name of the channel directory, "" = disarmed
	countdown int
	fired     bool
	// short write: the next Write on a data file of channel wdir stores only its first
	// 1 + wseed mod (len-1) bytes and returns ErrInjected (writes shorter than 2 bytes pass)
	wdir  string
	wseed int64
}

// Arm arms the fault: the n-th (n >= 1) matching ReadAt from now on fails once.
func (f *Fault) Arm(channelKey uint32, n int) {
	f.mu.Lock()
	defer f.mu.Unlock()
	f.dir, f.countdown, f.fired = strconv.Itoa(int(channelKey)), n, false
}

// ArmShortWrite arms a one-shot short write on the data files of the channel.
func (f *Fault) ArmShortWrite(channelKey uint32, seed int64) {
	f.mu.Lock()
	defer f.mu.Unlock()
	f.wdir, f.wseed, f.fired = strconv.Itoa(int(channelKey)), seed, false
}

// Disarm disarms the fault and reports whether it fired since it was armed.
func (f *Fault) Disarm() bool {
	f.mu.Lock()
	defer f.mu.Unlock()
	fired := f.fired
	f.dir, f.countdown, f.fired, f.wdir = "", 0, false, ""
	return fired
}

// shortWrite returns the number of bytes a faulted Write of n bytes stores, or -1.
func (f *Fault) shortWrite(dir, name string, n int) int {
	f.mu.Lock()
	defer f.mu.Unlock()
	if f.wdir == "" || path.Base(dir) != f.wdir || !isDataFile(name) || n < 2 {
		return -1
	}
	f.wdir, f.fired = "", true
	seed := f.wseed
	if seed < 0 {
		seed = -seed
	}
	return 1 + int(seed%int64(n-1))
}

func (f *Fault) hit(dir, name string) bool {
	f.mu.Lock()
	defer f.mu.Unlock()
	if f.dir == "" || path.Base(dir) != f.dir || !isDataFile(name) {
		return false
	}
	f.countdown--
	if f.countdown > 0 {
		return false
	}
	f.dir, f.fired = "", true
	return true
}

func isDataFile(name string) bool {
	base := path.Base(name)
	if !strings.HasSuffix(base, ".domain") {
		return false
	}
	_, err := strconv.Atoi(strings.TrimSuffix(base, ".domain"))
	return err == nil
}

// FaultFS wraps an FS so that reads of the files opened through it can be faulted.
type FaultFS struct {
	xfs.FS
	dir   string
	fault *Fault
}

func NewFaultFS(inner xfs.FS, fault *Fault) *FaultFS { return &FaultFS{FS: inner, fault: fault} }

func (f *FaultFS) Open(name string, flag int) (xfs.File, error) {
	file, err := f.FS.Open(name, flag)
	if err != nil {
		return nil, err
	}
	return &faultFile{File: file, dir: path.Join(f.dir, path.Dir(name)), name: name, fault: f.fault}, nil
}

func (f *FaultFS) Sub(name string) (xfs.FS, error) {
	inner, err := f.FS.Sub(name)
	if err != nil {
		return nil, err
	}
	return &FaultFS{FS: inner, dir: path.Join(f.dir, name), fault: f.fault}, nil
}

type faultFile struct {
	xfs.File
	dir, name string
	fault     *Fault
}

func (f *faultFile) Write(p []byte) (int, error) {
	if j := f.fault.shortWrite(f.dir, f.name, len(p)); j >= 0 {
		n, err := f.File.Write(p[:j])
		if err != nil {
			return n, err
		}
		return n, ErrInjected
	}
	return f.File.Write(p)
}

func (f *faultFile) ReadAt(p []byte, off int64) (int, error) {
	if f.fault.hit(f.dir, f.name) {
		return 0, ErrInjected
	}
	return f.File.ReadAt(p, off)
}
