//go:build verif

// Command c01 drives a real cesium.DB (in-memory FS) through a history of writer
// operations interleaved with DB.Read calls, then repeats a list of final reads before
// and after closing and reopening the database. One JSON case per stdin line, one JSON
// result per stdout line.
package main

import (
	"encoding/json"
	"fmt"
	"reflect"

	"github.com/synnaxlabs/cesium"
	"github.com/synnaxlabs/cesium/verifh/cesh"
	"github.com/synnaxlabs/x/telem"
)

type op struct {
	cesh.SOp
	TR [2]int64 `json:"tr"` // read
}

type tcase struct {
	ID    int        `json:"id"`
	Setup cesh.Setup `json:"setup"` // Script unused: the history is Ops
	Ops   []op       `json:"ops"`
	Final []op       `json:"final"`
}

type chanRead struct {
	K   uint32     `json:"k"`
	Ser []cesh.Ser `json:"ser"`
}

type out struct {
	Err  int        `json:"err"`
	End  int64      `json:"end"`
	Read []chanRead `json:"read,omitempty"`
	Msg  string     `json:"msg,omitempty"`
	// Late: the same frame (kept by reference) decoded again at the end of the case; only
	// set when it differs from Read.
	Late []chanRead `json:"late,omitempty"`
}

type result struct {
	ID     int     `json:"id"`
	Outs   []out   `json:"outs"`
	FinalA []out   `json:"final_a"`
	FinalB []out   `json:"final_b"`
	Panic  *string `json:"panic"`
	Fatal  string  `json:"fatal,omitempty"`
}

// held is a frame returned by DB.Read that the caller keeps.
type held struct {
	keys []uint32
	fr   cesium.Frame
	dst  *[]out
	at   int
}

func decodeFrame(env *cesh.Env, keys []uint32, fr cesium.Frame) []chanRead {
	rd := []chanRead{}
	for _, k := range keys {
		cr := chanRead{K: k, Ser: []cesh.Ser{}}
		ch, ok := env.Chans[k]
		if ok {
			for rk, s := range fr.Entries() {
				if rk == k {
					cr.Ser = append(cr.Ser, cesh.SeriesOf(ch.DT, s))
				}
			}
		}
		rd = append(rd, cr)
	}
	return rd
}

func doRead(env *cesh.Env, o op, kept *[]held, dst *[]out) {
	fr, err := env.DB.Read(env.Ctx, telem.TimeRange{Start: telem.TimeStamp(o.TR[0]), End: telem.TimeStamp(o.TR[1])}, o.Keys...)
	r := out{Err: cesh.ErrClass(err), Read: []chanRead{}}
	if err != nil {
		r.Msg = err.Error()
		*dst = append(*dst, r)
		return
	}
	r.Read = decodeFrame(env, o.Keys, fr)
	*kept = append(*kept, held{keys: o.Keys, fr: fr, dst: dst, at: len(*dst)})
	*dst = append(*dst, r)
}

func runCase(c tcase) (res result) {
	res.ID = c.ID
	res.Outs, res.FinalA, res.FinalB = []out{}, []out{}, []out{}
	defer func() {
		if r := recover(); r != nil {
			s := fmt.Sprint(r)
			res.Panic = &s
		}
	}()
	env, err := cesh.NewEnv(c.Setup)
	if err != nil {
		res.Fatal = err.Error()
		return
	}
	defer env.Close()
	kept := []held{}
	// the frames of all reads are kept and looked at again when the case is over
	defer func() {
		for _, h := range kept {
			late := decodeFrame(env, h.keys, h.fr)
			if !reflect.DeepEqual(late, (*h.dst)[h.at].Read) {
				(*h.dst)[h.at].Late = late
			}
		}
	}()
	for _, o := range c.Ops {
		if o.Op == "read" {
			doRead(env, o, &kept, &res.Outs)
			continue
		}
		r := env.Step(o.SOp)
		res.Outs = append(res.Outs, out{Err: r.Err, End: r.End, Msg: r.Msg})
	}
	if env.W != nil {
		_ = env.W.Close()
		env.W = nil
	}
	for _, o := range c.Final {
		doRead(env, o, &kept, &res.FinalA)
	}
	if r := env.Step(cesh.SOp{Op: "reopen"}); r.Err != 0 {
		res.Fatal = "reopen failed: " + r.Msg
		return
	}
	for _, o := range c.Final {
		doRead(env, o, &kept, &res.FinalB)
	}
	return
}

func main() {
	cesh.Serve(func(line []byte) any {
		var c tcase
		if err := json.Unmarshal(line, &c); err != nil {
			return result{Fatal: "bad case: " + err.Error()}
		}
		return runCase(c)
	})
}
