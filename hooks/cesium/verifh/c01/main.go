//go:build verif

// Command c01 drives a real cesium.DB (in-memory FS) through a history of writer
// operations interleaved with DB.Read calls, then repeats a list of final reads before
// and after closing and reopening the database. One JSON case per stdin line, one JSON
// result per stdout line.
package main

import (
	"encoding/json"
	"fmt"
	"reflect"

	"github.com/synnaxlabs/cesium"
	"github.com/synnaxlabs/cesium/verifh/cesh"
	"github.com/synnaxlabs/x/telem"
)

type op struct {
	cesh.SOp
	TR [2]int64 `json:"tr"` // read
}

type tcase struct {
	ID    int        `json:"id"`
	Setup cesh.Setup `json:"setup"` // Script unused: the history is Ops
	Ops   []op       `json:"ops"`
	Final []op       `json:"final"`
	// Rebound: final read I is repeated through ONE iterator that is opened on the (narrow)
	// range Open and re-targeted with SetBounds to the read's range (iterator reuse).
	Rebound *rebound `json:"rebound,omitempty"`
}

type rebound struct {
	I    int      `json:"i"`
	Open [2]int64 `json:"open"`
}

type chanRead struct {
	K   uint32     `json:"k"`
	Ser []cesh.Ser `json:"ser"`
}

type out struct {
	Err  int        `json:"err"`
	End  int64      `json:"end"`
	Read []chanRead `json:"read,omitempty"`
	Msg  string     `json:"msg,omitempty"`
	// Late: the same frame (kept by reference) decoded again at the end of the case; only
	// set when it differs from Read.
	Late []chanRead `json:"late,omitempty"`
}

type result struct {
	ID     int     `json:"id"`
	Outs   []out   `json:"outs"`
	FinalA []out   `json:"final_a"`
	FinalB []out   `json:"final_b"`
	Panic  *string `json:"panic"`
	Fatal  string  `json:"fatal,omitempty"`
	// the re-bounded iterator read of final read Rebound.I, before and after the reopen
	RebA *out `json:"reb_a,omitempty"`
	RebB *out `json:"reb_b,omitempty"`
}

// held is a frame returned by DB.Read that the caller keeps.
type held struct {
	keys []uint32
	fr   cesium.Frame
	dst  *[]out
	at   int
}

func decodeFrame(env *cesh.Env, keys []uint32, fr cesium.Frame) []chanRead {
	rd := []chanRead{}
	for _, k := range keys {
		cr := chanRead{K: k, Ser: []cesh.Ser{}}
		ch, ok := env.Chans[k]
		if ok {
			for rk, s := range fr.Entries() {
				if rk == k {
					cr.Ser = append(cr.Ser, cesh.SeriesOf(ch.DT, s))
				}
			}
		}
		rd = append(rd, cr)
	}
	return rd
}

func doRead(env *cesh.Env, o op, kept *[]held, dst *[]out) {
	fr, err := env.DB.Read(env.Ctx, telem.TimeRange{Start: telem.TimeStamp(o.TR[0]), End: telem.TimeStamp(o.TR[1])}, o.Keys...)
	r := out{Err: cesh.ErrClass(err), Read: []chanRead{}}
	if err != nil {
		r.Msg = err.Error()
		*dst = append(*dst, r)
		return
	}
	r.Read = decodeFrame(env, o.Keys, fr)
	*kept = append(*kept, held{keys: o.Keys, fr: fr, dst: dst, at: len(*dst)})
	*dst = append(*dst, r)
}

// reboundRead is DB.Read's loop (SeekFirst; Next(TimeSpanMax)...; Extend) on an iterator that
// was opened with other bounds and then re-targeted with SetBounds.
func reboundRead(env *cesh.Env, o op, open [2]int64) *out {
	r := &out{Read: []chanRead{}}
	it, err := env.DB.OpenIterator(cesium.IteratorConfig{
		Channels: o.Keys,
		Bounds:   telem.TimeRange{Start: telem.TimeStamp(open[0]), End: telem.TimeStamp(open[1])},
	})
	if err != nil {
		r.Err, r.Msg = cesh.ErrClass(err), err.Error()
		return r
	}
	it.SeekFirst()
	it.Next(telem.TimeSpanMax)
	it.SetBounds(telem.TimeRange{Start: telem.TimeStamp(o.TR[0]), End: telem.TimeStamp(o.TR[1])})
	var fr cesium.Frame
	if it.SeekFirst() {
		for it.Next(telem.TimeSpanMax) {
			fr = fr.Extend(it.Value())
		}
	}
	r.Read = decodeFrame(env, o.Keys, fr)
	if err := it.Close(); err != nil {
		r.Err, r.Msg = cesh.ErrClass(err), err.Error()
	}
	return r
}

func runCase(c tcase) (res result) {
	res.ID = c.ID
	res.Outs, res.FinalA, res.FinalB = []out{}, []out{}, []out{}
	defer func() {
		if r := recover(); r != nil {
			s := fmt.Sprint(r)
			res.Panic = &s
		}
	}()
	env, err := cesh.NewEnv(c.Setup)
	if err != nil {
		res.Fatal = err.Error()
		return
	}
	defer env.Close()
	kept := []held{}
	// the frames of all reads are kept and looked at again when the case is over
	defer func() {
		for _, h := range kept {
			late := decodeFrame(env, h.keys, h.fr)
			if !reflect.DeepEqual(late, (*h.dst)[h.at].Read) {
				(*h.dst)[h.at].Late = late
			}
		}
	}()
	for _, o := range c.Ops {
		if o.Op == "read" {
			doRead(env, o, &kept, &res.Outs)
			continue
		}
		r := env.Step(o.SOp)
		res.Outs = append(res.Outs, out{Err: r.Err, End: r.End, Msg: r.Msg})
	}
	if env.W != nil {
		_ = env.W.Close()
		env.W = nil
	}
	for _, o := range c.Final {
		doRead(env, o, &kept, &res.FinalA)
	}
	reb := c.Rebound != nil && c.Rebound.I >= 0 && c.Rebound.I < len(c.Final)
	if reb {
		res.RebA = reboundRead(env, c.Final[c.Rebound.I], c.Rebound.Open)
	}
	if r := env.Step(cesh.SOp{Op: "reopen"}); r.Err != 0 {
		res.Fatal = "reopen failed: " + r.Msg
		return
	}
	for _, o := range c.Final {
		doRead(env, o, &kept, &res.FinalB)
	}
	if reb {
		res.RebB = reboundRead(env, c.Final[c.Rebound.I], c.Rebound.Open)
	}
	return
}

func main() {
	cesh.Serve(func(line []byte) any {
		var c tcase
		if err := json.Unmarshal(line, &c); err != nil {
			return result{Fatal: "bad case: " + err.Error()}
		}
		return runCase(c)
	})
}
