//go:build verif

package cesium

import (
	"github.com/synnaxlabs/cesium/internal/channel"
	"github.com/synnaxlabs/cesium/internal/unary"
)

// VerifOpenUnaryIterator opens the unary iterator of one channel exactly as
// newStreamIterator does, so that a harness can observe View() next to Value().
func (db *DB) VerifOpenUnaryIterator(key ChannelKey, cfg unary.IteratorConfig) (*unary.Iterator, error) {
	db.mu.RLock()
	defer db.mu.RUnlock()
	uDB, ok := db.mu.dbs.unary[key]
	if !ok {
		return nil, channel.NewNotFoundError(key)
	}
	return uDB.OpenIterator(cfg)
}
