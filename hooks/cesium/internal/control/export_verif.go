//go:build verif

package control

// Add-only verification hook (C05): read-only dump of the controller's regions.

// VerifGate is a copy of a gate's identity as seen by its region. Position is only used
// by the harness to order the gates of a region (earliest open first); it is converted
// explicitly so that the hook does not depend on the integer type of the field.
type VerifGate struct {
	Subject   string
	Authority uint8
	Position  uint64
}

// VerifRegion is a copy of one region's bookkeeping.
type VerifRegion struct {
	Start, End  int64
	Resource    uint32
	HasCurr     bool
	CurrInGates bool
	Curr        VerifGate
	Gates       []VerifGate
}

// VerifDump copies the regions of the controller in controller order.
func (c *Controller[R]) VerifDump() []VerifRegion {
	c.mu.RLock()
	defer c.mu.RUnlock()
	out := make([]VerifRegion, 0, len(c.regions))
	for _, r := range c.regions {
		r.RLock()
		vr := VerifRegion{
			Start:    int64(r.timeRange.Start),
			End:      int64(r.timeRange.End),
			Resource: r.resource.ChannelKey(),
		}
		if r.curr != nil {
			vr.HasCurr = true
			vr.Curr = VerifGate{Subject: r.curr.subject.Key, Authority: uint8(r.curr.authority), Position: uint64(r.curr.position)}
			_, vr.CurrInGates = r.gates[r.curr]
		}
		for g := range r.gates {
			vr.Gates = append(vr.Gates, VerifGate{Subject: g.subject.Key, Authority: uint8(g.authority), Position: uint64(g.position)})
		}
		r.RUnlock()
		out = append(out, vr)
	}
	return out
}
