//go:build verif

// Add-only verification hooks for property C03 (read-only views of unexported state).
package domain

// VerifC03Pointer is a copy of one index pointer.
type VerifC03Pointer struct {
	Start, End int64
	FileKey    uint16
	Offset     uint32
	Size       uint32
}

// VerifC03Pointers returns a copy of the in-memory index, in index order.
func (db *DB) VerifC03Pointers() []VerifC03Pointer {
	db.idx.mu.RLock()
	defer db.idx.mu.RUnlock()
	out := make([]VerifC03Pointer, 0, len(db.idx.mu.pointers))
	for _, p := range db.idx.mu.pointers {
		out = append(out, VerifC03Pointer{
			Start: int64(p.Start), End: int64(p.End),
			FileKey: p.fileKey, Offset: p.offset, Size: p.size,
		})
	}
	return out
}

// VerifC03FileSizes returns the nominal file size (cfg.FileSize after Override) and the
// real file size cap used by the rollover decision.
func (db *DB) VerifC03FileSizes() (nominal int64, realCap int64) {
	return int64(db.fc.FileSize), int64(db.fc.realFileSizeCap())
}

// VerifC03FileKey returns the key of the file the writer currently holds.
func (w *Writer) VerifC03FileKey() uint16 { return w.fileKey }
