//go:build verif

package cesium

import "context"

// VerifC09GC runs one synchronous garbage-collection pass (what the background ticker calls).
func (db *DB) VerifC09GC(ctx context.Context) error { return db.garbageCollect(ctx, 4) }
