//go:build verif

package cesium

// WithVerifStreamingConfig sets the (otherwise unexported) streaming configuration of
// the DB: the relay buffer size and the slow-consumer timeout. Add-only hook used by the
// C20 correspondence harness so that the slow-consumer timeout can be raised far above
// scheduling jitter and so that a full relay buffer is reachable with a few frames.
func WithVerifStreamingConfig(cfg DBStreamingConfig) Option {
	return func(o *options) { o.streamingConfig = cfg }
}
