//go:build verif

package cesium

import "context"

// VerifGC runs the database's private garbage-collection pass once, synchronously
// (the same call the background ticker makes). Add-only verification hook (C04).
func (db *DB) VerifGC(ctx context.Context) error {
	return db.garbageCollect(ctx, DefaultGCConfig.MaxGoroutine)
}
