module go2coq

go 1.22
