// go2coq translates a small pure subset of Go (integer / boolean / struct-of-integers
// functions and value-receiver methods) into Gallina definitions over Z and bool.
//
//	go2coq <repo> <spec.json>   (prints the Coq file on stdout; exit 2 = construct not supported)
//
// It is a translator in the sense of the verification brief: its output is regenerated from the
// current source on every run, and the hand-written models are proved equal to it. It FAILS
// CLOSED: any construct outside the subset aborts the translation (the proofs then do not build).
//
// Subset
//
//	types   named integer types (type T int64 …), bool, structs whose fields are such types
//	funcs   func (r T) M(params) R  and  func F(params) R, single result (possibly named)
//	stmts   return [e]; x := e; x = e; x.F = e; x.F++ / -- / += / -=; x++ …;
//	        if c { … } [else { … }] where the blocks contain the same statements
//	exprs   literals, identifiers, field selection, + - * (wrapping at the static width),
//	        unary -, comparisons, == != on integers / bools / structs, && || !,
//	        conversions T(e) between integer types, composite literals T{…},
//	        calls of other translated functions / methods, math.MaxInt64 / MinInt64 …
package main

import (
	"encoding/json"
	"fmt"
	"go/ast"
	"go/parser"
	"go/token"
	"os"
	"path/filepath"
	"sort"
	"strings"
)

type Spec struct {
	Module string   `json:"module"` // Coq file name (informational)
	Files  []string `json:"files"`  // Go files relative to the repo root
	Funcs  []string `json:"funcs"`  // "Recv.Method" or "Func" or "pkg.Func" (pkg = the Go package name of the file)
	Consts []string `json:"consts"` // package-level constants / variables to translate ("Name" or "pkg.Name")
	// Primary: packages whose declarations are visible unqualified (default: all packages of Files).
	// Declarations of the other packages are visible only as pkg.Name.
	Primary []string `json:"primary"`
}

type intType struct {
	bits   int
	signed bool
}

var baseInts = map[string]intType{
	"int8": {8, true}, "int16": {16, true}, "int32": {32, true}, "int64": {64, true}, "int": {64, true},
	"uint8": {8, false}, "uint16": {16, false}, "uint32": {32, false}, "uint64": {64, false}, "uint": {64, false},
	"byte": {8, false},
}

type field struct {
	name, typ string
}

type fn struct {
	key    string // "Recv.Method" or "Func"
	coq    string
	decl   *ast.FuncDecl
	pkg    string
	params []field // including receiver first
	ret    string
	retVar string
}

var (
	ints        = map[string]intType{}
	structs     = map[string][]field{}
	fns         = map[string]*fn{}
	consts      = map[string]ast.Expr{}
	constTy     = map[string]string{}
	pkgOf       = map[string]string{} // func key -> package
	constPkg    = map[string]string{}
	structPkg   = map[string]string{}
	constTyExpr = map[string]ast.Expr{}
	fset        = token.NewFileSet()
)

func fail(n ast.Node, f string, a ...any) {
	pos := ""
	if n != nil {
		pos = fset.Position(n.Pos()).String() + ": "
	}
	fmt.Fprintf(os.Stderr, "go2coq: %s%s\n", pos, fmt.Sprintf(f, a...))
	os.Exit(2)
}

// curPkg: the Go package whose declaration is being read / translated; bare type names resolve in it first
var curPkg string

func bare(t string) string {
	if i := strings.LastIndex(t, "."); i >= 0 {
		return t[i+1:]
	}
	return t
}

func typeName(e ast.Expr) string {
	switch t := e.(type) {
	case *ast.Ident:
		if _, ok := ints[curPkg+"."+t.Name]; ok {
			return curPkg + "." + t.Name
		}
		if _, ok := structs[curPkg+"."+t.Name]; ok {
			return curPkg + "." + t.Name
		}
		return t.Name
	case *ast.SelectorExpr:
		return typeName(t.X) + "." + t.Sel.Name
	case *ast.ParenExpr:
		return typeName(t.X)
	}
	fail(e, "unsupported type expression %T", e)
	return ""
}

func isInt(t string) bool    { _, ok := ints[t]; return ok }
func isStruct(t string) bool { _, ok := structs[t]; return ok }

func coqType(t string) string {
	switch {
	case t == "bool":
		return "bool"
	case isInt(t):
		return "Z"
	case isStruct(t):
		return bare(t)
	}
	fail(nil, "type %s is not in the subset", t)
	return ""
}

// ---------------------------------------------------------------- environment
type env struct {
	vars map[string]string // variable -> Go type
	f    *fn
}

func (e *env) clone() *env {
	m := map[string]string{}
	for k, v := range e.vars {
		m[k] = v
	}
	return &env{vars: m, f: e.f}
}

// typeOf: static type of an expression ("" = untyped constant)
func (e *env) typeOf(x ast.Expr) string {
	switch t := x.(type) {
	case *ast.BasicLit:
		return ""
	case *ast.ParenExpr:
		return e.typeOf(t.X)
	case *ast.Ident:
		if ty, ok := e.vars[t.Name]; ok {
			return ty
		}
		if t.Name == "true" || t.Name == "false" {
			return "bool"
		}
		if ty, ok := constTy[t.Name]; ok {
			return ty
		}
		if ty, ok := constTy[curPkg+"."+t.Name]; ok {
			return ty
		}
		fail(x, "unknown identifier %s", t.Name)
	case *ast.SelectorExpr:
		if id, ok := t.X.(*ast.Ident); ok {
			if _, isVar := e.vars[id.Name]; !isVar {
				if ty, ok := constTy[id.Name+"."+t.Sel.Name]; ok {
					return ty
				}
			}
		}
		if id, ok := t.X.(*ast.Ident); ok && id.Name == "math" {
			return ""
		}
		st := e.typeOf(t.X)
		for _, f := range structs[st] {
			if f.name == t.Sel.Name {
				return f.typ
			}
		}
		fail(x, "no field %s in %s", t.Sel.Name, st)
	case *ast.UnaryExpr:
		if t.Op == token.NOT {
			return "bool"
		}
		return e.typeOf(t.X)
	case *ast.BinaryExpr:
		switch t.Op {
		case token.LAND, token.LOR, token.EQL, token.NEQ, token.LSS, token.LEQ, token.GTR, token.GEQ:
			return "bool"
		}
		if l := e.typeOf(t.X); l != "" {
			return l
		}
		return e.typeOf(t.Y)
	case *ast.CompositeLit:
		return typeName(t.Type)
	case *ast.CallExpr:
		if id, ok := t.Fun.(*ast.Ident); ok && (id.Name == "min" || id.Name == "max") && len(t.Args) == 2 {
			if _, shadow := fns[id.Name]; !shadow {
				if l := e.typeOf(t.Args[0]); l != "" {
					return l
				}
				return e.typeOf(t.Args[1])
			}
		}
		if f, _ := e.callee(t); f != nil {
			return f.ret
		}
		// conversion
		return typeName(t.Fun)
	}
	fail(x, "unsupported expression %T", x)
	return ""
}

// callee resolves a call to a translated function; returns the function and the receiver expression (or nil)
func (e *env) callee(c *ast.CallExpr) (*fn, ast.Expr) {
	switch f := c.Fun.(type) {
	case *ast.Ident:
		if g, ok := fns[f.Name]; ok {
			return g, nil
		}
		return nil, nil
	case *ast.SelectorExpr:
		if id, ok := f.X.(*ast.Ident); ok {
			if _, isVar := e.vars[id.Name]; !isVar {
				if _, isConst := constTy[id.Name]; !isConst {
					// package-qualified function
					if g, ok := fns[id.Name+"."+f.Sel.Name]; ok {
						return g, nil
					}
					if isInt(id.Name + "." + f.Sel.Name) {
						return nil, nil
					}
					if _, isBuiltinPkg := map[string]bool{"math": true}[id.Name]; isBuiltinPkg && false {
						return nil, nil
					}
					fail(c, "call of %s.%s: function not in the translation set", id.Name, f.Sel.Name)
				}
			}
		}
		rt := e.typeOf(f.X)
		if g, ok := fns[bare(rt)+"."+f.Sel.Name]; ok {
			return g, f.X
		}
		fail(c, "method %s.%s is not in the translation set", rt, f.Sel.Name)
	}
	return nil, nil
}

func wrap(t string, s string) string {
	it, ok := ints[t]
	if !ok {
		return "(" + s + ")" // untyped constant arithmetic: exact
	}
	if it.signed {
		return fmt.Sprintf("(wrap_s %d (%s))", it.bits, s)
	}
	return fmt.Sprintf("(wrap_u %d (%s))", it.bits, s)
}

func (e *env) expr(x ast.Expr) string {
	switch t := x.(type) {
	case *ast.BasicLit:
		if t.Kind != token.INT {
			fail(x, "only integer literals are supported")
		}
		return "(" + t.Value + ")"
	case *ast.ParenExpr:
		return e.expr(t.X)
	case *ast.Ident:
		if _, ok := e.vars[t.Name]; ok {
			return t.Name
		}
		if t.Name == "true" || t.Name == "false" {
			return t.Name
		}
		if _, ok := constTy[t.Name]; ok {
			return t.Name
		}
		if _, ok := constTy[curPkg+"."+t.Name]; ok {
			return curPkg + "_" + t.Name
		}
		fail(x, "unknown identifier %s", t.Name)
	case *ast.SelectorExpr:
		if id, ok := t.X.(*ast.Ident); ok {
			if _, isVar := e.vars[id.Name]; !isVar {
				if _, ok := constTy[id.Name+"."+t.Sel.Name]; ok {
					return strings.ReplaceAll(id.Name+"."+t.Sel.Name, ".", "_")
				}
			}
		}
		if id, ok := t.X.(*ast.Ident); ok && id.Name == "math" {
			switch t.Sel.Name {
			case "MaxInt64":
				return "(2 ^ 63 - 1)"
			case "MinInt64":
				return "(- 2 ^ 63)"
			case "MaxUint32":
				return "(2 ^ 32 - 1)"
			case "MaxInt32":
				return "(2 ^ 31 - 1)"
			case "MinInt32":
				return "(- 2 ^ 31)"
			}
			fail(x, "math.%s not supported", t.Sel.Name)
		}
		st := e.typeOf(t.X)
		if !isStruct(st) {
			fail(x, "selector on non-struct %s", st)
		}
		return fmt.Sprintf("(%s_%s %s)", bare(st), t.Sel.Name, e.expr(t.X))
	case *ast.UnaryExpr:
		switch t.Op {
		case token.NOT:
			return "(negb " + e.expr(t.X) + ")"
		case token.SUB:
			return wrap(e.typeOf(t.X), "- "+e.expr(t.X))
		case token.ADD:
			return e.expr(t.X)
		case token.XOR:
			it, ok := ints[e.typeOf(t.X)]
			if !ok || it.signed {
				fail(x, "bitwise complement only on typed unsigned operands")
			}
			return fmt.Sprintf("(2 ^ %d - 1 - %s)", it.bits, e.expr(t.X))
		}
		fail(x, "unary operator %s not supported", t.Op)
	case *ast.BinaryExpr:
		a, b := e.expr(t.X), e.expr(t.Y)
		lt := e.typeOf(t.X)
		if lt == "" {
			lt = e.typeOf(t.Y)
		}
		switch t.Op {
		case token.LAND:
			return "(" + a + " && " + b + ")"
		case token.LOR:
			return "(" + a + " || " + b + ")"
		case token.ADD:
			return wrap(lt, a+" + "+b)
		case token.SUB:
			return wrap(lt, a+" - "+b)
		case token.MUL:
			return wrap(lt, a+" * "+b)
		case token.OR:
			return "(Z.lor " + a + " " + b + ")"
		case token.AND:
			return "(Z.land " + a + " " + b + ")"
		case token.SHR:
			return "(Z.shiftr " + a + " " + b + ")"
		case token.SHL:
			return wrap(lt, "Z.shiftl "+a+" "+b)
		case token.LSS:
			return "(" + a + " <? " + b + ")"
		case token.LEQ:
			return "(" + a + " <=? " + b + ")"
		case token.GTR:
			return "(" + a + " >? " + b + ")"
		case token.GEQ:
			return "(" + a + " >=? " + b + ")"
		case token.EQL, token.NEQ:
			var s string
			switch {
			case lt == "bool":
				s = "(Bool.eqb " + a + " " + b + ")"
			case isStruct(lt):
				s = "(" + bare(lt) + "_eqb " + a + " " + b + ")"
			default:
				s = "(" + a + " =? " + b + ")"
			}
			if t.Op == token.NEQ {
				s = "(negb " + s + ")"
			}
			return s
		}
		fail(x, "binary operator %s not supported", t.Op)
	case *ast.CompositeLit:
		st := typeName(t.Type)
		fs, ok := structs[st]
		if !ok {
			fail(x, "composite literal of %s", st)
		}
		vals := make([]string, len(fs))
		for i, f := range fs {
			if f.typ == "bool" {
				vals[i] = "false"
			} else if isStruct(f.typ) {
				fail(x, "nested struct zero value not supported")
			} else {
				vals[i] = "0"
			}
		}
		for i, el := range t.Elts {
			if kv, ok := el.(*ast.KeyValueExpr); ok {
				k := kv.Key.(*ast.Ident).Name
				found := false
				for j, f := range fs {
					if f.name == k {
						vals[j] = e.conv(f.typ, kv.Value)
						found = true
					}
				}
				if !found {
					fail(x, "no field %s", k)
				}
			} else {
				if i >= len(fs) {
					fail(x, "too many fields")
				}
				vals[i] = e.conv(fs[i].typ, el)
			}
		}
		return "(mk" + bare(st) + " " + strings.Join(vals, " ") + ")"
	case *ast.CallExpr:
		if id, ok := t.Fun.(*ast.Ident); ok && (id.Name == "min" || id.Name == "max") && len(t.Args) == 2 {
			if _, shadow := fns[id.Name]; !shadow {
				return fmt.Sprintf("(Z.%s %s %s)", id.Name, e.expr(t.Args[0]), e.expr(t.Args[1]))
			}
		}
		if f, recv := e.callee(t); f != nil {
			args := []string{}
			ps := f.params
			if recv != nil {
				args = append(args, e.expr(recv))
				ps = ps[1:]
			}
			if len(ps) != len(t.Args) {
				fail(x, "arity mismatch calling %s", f.key)
			}
			for i, a := range t.Args {
				args = append(args, e.conv(ps[i].typ, a))
			}
			return "(" + f.coq + " " + strings.Join(args, " ") + ")"
		}
		// conversion between integer types
		tn := typeName(t.Fun)
		if !isInt(tn) || len(t.Args) != 1 {
			fail(x, "call %s is neither a translated function nor an integer conversion", tn)
		}
		return wrap(tn, e.expr(t.Args[0]))
	}
	fail(x, "unsupported expression %T", x)
	return ""
}

// conv: expression used where a value of type [to] is expected (untyped constants take that type)
func (e *env) conv(to string, x ast.Expr) string { return e.expr(x) }

// ---------------------------------------------------------------- statements
// assigned collects the variables a block assigns
func assigned(b []ast.Stmt, out map[string]bool) {
	for _, s := range b {
		switch t := s.(type) {
		case *ast.AssignStmt:
			for _, l := range t.Lhs {
				out[rootIdent(l)] = true
			}
		case *ast.IncDecStmt:
			out[rootIdent(t.X)] = true
		case *ast.IfStmt:
			assigned(t.Body.List, out)
			if t.Else != nil {
				if eb, ok := t.Else.(*ast.BlockStmt); ok {
					assigned(eb.List, out)
				} else {
					assigned([]ast.Stmt{t.Else}, out)
				}
			}
		}
	}
}

func rootIdent(x ast.Expr) string {
	switch t := x.(type) {
	case *ast.Ident:
		return t.Name
	case *ast.SelectorExpr:
		return rootIdent(t.X)
	}
	fail(x, "unsupported assignment target")
	return ""
}

func endsInReturn(b []ast.Stmt) bool {
	if len(b) == 0 {
		return false
	}
	switch t := b[len(b)-1].(type) {
	case *ast.ReturnStmt:
		return true
	case *ast.IfStmt:
		if t.Else == nil {
			return false
		}
		eb, ok := t.Else.(*ast.BlockStmt)
		return ok && endsInReturn(t.Body.List) && endsInReturn(eb.List)
	}
	return false
}

// assign: Coq term for the new value of variable v after `lhs = rhs`
func (e *env) assignTerm(lhs ast.Expr, rhs string) (string, string) {
	switch t := lhs.(type) {
	case *ast.Ident:
		return t.Name, rhs
	case *ast.SelectorExpr:
		st := e.typeOf(t.X)
		fs, ok := structs[st]
		if !ok {
			fail(lhs, "field assignment on non-struct")
		}
		parts := []string{}
		for _, f := range fs {
			if f.name == t.Sel.Name {
				parts = append(parts, rhs)
			} else {
				parts = append(parts, fmt.Sprintf("(%s_%s %s)", bare(st), f.name, e.expr(t.X)))
			}
		}
		return e.assignTerm(t.X, "(mk"+bare(st)+" "+strings.Join(parts, " ")+")")
	}
	fail(lhs, "unsupported assignment target")
	return "", ""
}

// block translates statements followed by continuation k (nil: the block must end in return).
// tail(env) produces the term for "what comes after".
func (e *env) block(b []ast.Stmt, tail func(*env) string) string {
	if len(b) == 0 {
		return tail(e)
	}
	s, rest := b[0], b[1:]
	switch t := s.(type) {
	case *ast.ReturnStmt:
		if len(t.Results) == 0 {
			if e.f.retVar == "" {
				fail(s, "bare return without a named result")
			}
			return e.f.retVar
		}
		if len(t.Results) != 1 {
			fail(s, "multiple results are not supported")
		}
		return e.conv(e.f.ret, t.Results[0])
	case *ast.AssignStmt:
		if len(t.Lhs) != 1 || len(t.Rhs) != 1 {
			fail(s, "only single assignments are supported")
		}
		var rhs string
		switch t.Tok {
		case token.DEFINE, token.ASSIGN:
			rhs = e.expr(t.Rhs[0])
		case token.ADD_ASSIGN:
			rhs = wrap(e.typeOf(t.Lhs[0]), e.expr(t.Lhs[0])+" + "+e.expr(t.Rhs[0]))
		case token.SUB_ASSIGN:
			rhs = wrap(e.typeOf(t.Lhs[0]), e.expr(t.Lhs[0])+" - "+e.expr(t.Rhs[0]))
		default:
			fail(s, "assignment operator %s not supported", t.Tok)
		}
		e2 := e.clone()
		if t.Tok == token.DEFINE {
			id, ok := t.Lhs[0].(*ast.Ident)
			if !ok {
				fail(s, ":= to a non-identifier")
			}
			ty := e.typeOf(t.Rhs[0])
			if ty == "" {
				ty = "int"
			}
			e2.vars[id.Name] = ty
			return fmt.Sprintf("let %s := %s in\n  %s", id.Name, rhs, e2.block(rest, tail))
		}
		v, term := e.assignTerm(t.Lhs[0], rhs)
		return fmt.Sprintf("let %s := %s in\n  %s", v, term, e2.block(rest, tail))
	case *ast.IncDecStmt:
		op := " + 1"
		if t.Tok == token.DEC {
			op = " - 1"
		}
		rhs := wrap(e.typeOf(t.X), e.expr(t.X)+op)
		v, term := e.assignTerm(t.X, rhs)
		return fmt.Sprintf("let %s := %s in\n  %s", v, term, e.block(rest, tail))
	case *ast.IfStmt:
		if t.Init != nil {
			fail(s, "if with init statement not supported")
		}
		c := e.expr(t.Cond)
		var els []ast.Stmt
		if t.Else != nil {
			if eb, ok := t.Else.(*ast.BlockStmt); ok {
				els = eb.List
			} else {
				els = []ast.Stmt{t.Else}
			}
		}
		thenRet, elseRet := endsInReturn(t.Body.List), endsInReturn(els)
		after := func(e3 *env) string { return e3.block(rest, tail) }
		if thenRet && (elseRet || t.Else == nil) {
			// if c { …return } [else {… return}] ; rest
			var elsTerm string
			if t.Else == nil {
				elsTerm = after(e)
			} else {
				elsTerm = e.clone().block(els, nil)
			}
			return fmt.Sprintf("if %s then %s\n  else %s", c, e.clone().block(t.Body.List, nil), elsTerm)
		}
		if thenRet || elseRet {
			// one branch returns, the other falls through
			if thenRet {
				return fmt.Sprintf("if %s then %s\n  else %s", c, e.clone().block(t.Body.List, nil), e.clone().block(els, after))
			}
			return fmt.Sprintf("if %s then %s\n  else %s", c, e.clone().block(t.Body.List, after), e.clone().block(els, nil))
		}
		// both fall through: rebind the assigned variables
		set := map[string]bool{}
		assigned(t.Body.List, set)
		assigned(els, set)
		vs := []string{}
		for v := range set {
			if _, ok := e.vars[v]; ok { // variables declared inside the branches are local to them
				vs = append(vs, v)
			}
		}
		sort.Strings(vs)
		if len(vs) == 0 {
			return after(e)
		}
		tup := strings.Join(vs, ", ")
		if len(vs) > 1 {
			tup = "(" + tup + ")"
		}
		fin := func(*env) string { return tup }
		pat := tup
		if len(vs) > 1 {
			pat = "'" + tup
		}
		return fmt.Sprintf("let %s := (if %s then %s else %s) in\n  %s", pat, c,
			e.clone().block(t.Body.List, fin), e.clone().block(els, fin), after(e))
	}
	fail(s, "statement %T is not in the subset", s)
	return ""
}

// ---------------------------------------------------------------- constants
func (e *env) constExpr(x ast.Expr) string { return e.expr(x) }

// ---------------------------------------------------------------- main
func main() {
	if len(os.Args) != 3 {
		fmt.Fprintln(os.Stderr, "usage: go2coq <repo> <spec.json>")
		os.Exit(2)
	}
	repo := os.Args[1]
	raw, err := os.ReadFile(os.Args[2])
	if err != nil {
		fail(nil, "%v", err)
	}
	var spec Spec
	if err := json.Unmarshal(raw, &spec); err != nil {
		fail(nil, "spec: %v", err)
	}
	for k, v := range baseInts {
		ints[k] = v
	}
	want := map[string]bool{}
	for _, f := range spec.Funcs {
		want[f] = true
	}
	wantConst := map[string]bool{}
	for _, c := range spec.Consts {
		wantConst[c] = true
	}
	type pending struct {
		d   *ast.FuncDecl
		pkg string
	}
	type alias struct{ pkg, name, under, underPkg string }
	var aliases []alias
	primary := map[string]bool{}
	for _, p := range spec.Primary {
		primary[p] = true
	}
	var decls []pending
	var constOrder []string
	for _, rel := range spec.Files {
		f, err := parser.ParseFile(fset, filepath.Join(repo, rel), nil, 0)
		if err != nil {
			fail(nil, "%v", err)
		}
		pkg := f.Name.Name
		curPkg = pkg
		for _, d := range f.Decls {
			switch t := d.(type) {
			case *ast.GenDecl:
				for _, sp := range t.Specs {
					switch s := sp.(type) {
					case *ast.TypeSpec:
						switch u := s.Type.(type) {
						case *ast.Ident:
							aliases = append(aliases, alias{pkg, s.Name.Name, u.Name, pkg})
						case *ast.SelectorExpr:
							if q, ok := u.X.(*ast.Ident); ok {
								aliases = append(aliases, alias{pkg, s.Name.Name, u.Sel.Name, q.Name})
							}
						case *ast.StructType:
							ok := true
							var fs []field
							for _, fl := range u.Fields.List {
								id, isId := fl.Type.(*ast.Ident)
								if !isId || len(fl.Names) == 0 {
									ok = false
									break
								}
								for _, n := range fl.Names {
									fs = append(fs, field{n.Name, id.Name})
								}
							}
							if ok {
								structs[pkg+"."+s.Name.Name] = fs
								structPkg[pkg+"."+s.Name.Name] = pkg
							}
						}
					case *ast.ValueSpec:
						if t.Tok != token.CONST && t.Tok != token.VAR {
							continue
						}
						for i, n := range s.Names {
							cname := n.Name
							if !wantConst[cname] && wantConst[pkg+"."+cname] {
								cname = pkg + "." + cname
							} else if wantConst[cname] && len(primary) > 0 && !primary[pkg] {
								continue
							}
							if wantConst[cname] {
								if i >= len(s.Values) {
									fail(s, "constant %s has no explicit value (iota not supported)", n.Name)
								}
								consts[cname] = s.Values[i]
								constPkg[cname] = pkg
								if s.Type != nil {
									constTyExpr[cname] = s.Type
								} else if c, ok := s.Values[i].(*ast.CallExpr); ok {
									constTyExpr[cname] = c.Fun
								} else if c, ok := s.Values[i].(*ast.CompositeLit); ok {
									constTyExpr[cname] = c.Type
								}
								constTy[cname] = "int"
								constOrder = append(constOrder, cname)
							}
						}
					}
				}
			case *ast.FuncDecl:
				decls = append(decls, pending{t, pkg})
			}
		}
	}
	// resolve named integer types (type T U, type T pkg.U) to a width, to a fixpoint
	for changed := true; changed; {
		changed = false
		for _, a := range aliases {
			if _, done := ints[a.pkg+"."+a.name]; done {
				continue
			}
			it, ok := ints[a.underPkg+"."+a.under]
			if !ok && a.underPkg == a.pkg {
				it, ok = baseInts[a.under]
			}
			if ok {
				ints[a.pkg+"."+a.name] = it
				changed = true
			}
		}
	}
	for c, te := range constTyExpr {
		curPkg = constPkg[c]
		constTy[c] = typeName(te)
	}
	for sn, fs := range structs {
		curPkg = structPkg[sn]
		for i := range fs {
			fs[i].typ = typeName(&ast.Ident{Name: fs[i].typ})
		}
	}
	// struct fields must be integer types or bool (checked lazily via coqType)
	for _, p := range decls {
		d := p.d
		curPkg = p.pkg
		key := d.Name.Name
		var params []field
		if d.Recv != nil {
			if len(d.Recv.List) != 1 {
				continue
			}
			if _, ptr := d.Recv.List[0].Type.(*ast.StarExpr); ptr {
				if want[typeName(d.Recv.List[0].Type.(*ast.StarExpr).X)+"."+key] {
					fail(d, "pointer receivers are not in the subset")
				}
				continue
			}
			rt := typeName(d.Recv.List[0].Type)
			key = bare(rt) + "." + key
			rn := "_recv"
			if len(d.Recv.List[0].Names) == 1 {
				rn = d.Recv.List[0].Names[0].Name
			}
			params = append(params, field{rn, rt})
		}
		k2 := key
		if !want[key] {
			if want[p.pkg+"."+key] {
				k2 = p.pkg + "." + key
			} else {
				continue
			}
		}
		for _, pl := range d.Type.Params.List {
			for _, n := range pl.Names {
				params = append(params, field{n.Name, typeName(pl.Type)})
			}
		}
		if d.Type.Results == nil || len(d.Type.Results.List) != 1 || len(d.Type.Results.List[0].Names) > 1 {
			fail(d, "%s: exactly one result is required", key)
		}
		g := &fn{key: k2, decl: d, pkg: p.pkg, params: params, ret: typeName(d.Type.Results.List[0].Type)}
		if len(d.Type.Results.List[0].Names) == 1 {
			g.retVar = d.Type.Results.List[0].Names[0].Name
		}
		g.coq = strings.ReplaceAll(k2, ".", "_")
		fns[k2] = g
	}
	for f := range want {
		if _, ok := fns[f]; !ok {
			fail(nil, "function %s not found in %v", f, spec.Files)
		}
	}
	for c := range wantConst {
		if _, ok := consts[c]; !ok {
			fail(nil, "constant %s not found", c)
		}
	}
	// translate bodies, recording dependencies for ordering
	bodies := map[string]string{}
	deps := map[string][]string{}
	for k, g := range fns {
		curPkg = g.pkg
		e := &env{vars: map[string]string{}, f: g}
		for _, p := range g.params {
			e.vars[p.name] = p.typ
		}
		var pre string
		if g.retVar != "" {
			e.vars[g.retVar] = g.ret
			if isStruct(g.ret) {
				zs := []string{}
				for range structs[g.ret] {
					zs = append(zs, "0")
				}
				pre = fmt.Sprintf("let %s := mk%s %s in\n  ", g.retVar, bare(g.ret), strings.Join(zs, " "))
			} else if g.ret == "bool" {
				pre = fmt.Sprintf("let %s := false in\n  ", g.retVar)
			} else {
				pre = fmt.Sprintf("let %s := 0 in\n  ", g.retVar)
			}
		}
		if g.decl.Body == nil {
			fail(g.decl, "%s has no body", k)
		}
		bodies[k] = pre + e.block(g.decl.Body.List, func(e2 *env) string {
			if g.retVar != "" {
				return g.retVar
			}
			fail(g.decl, "%s: control reaches the end without return", k)
			return ""
		})
		for k2, g2 := range fns {
			if k2 != k && strings.Contains(bodies[k], "("+g2.coq+" ") {
				deps[k] = append(deps[k], k2)
			}
		}
	}
	// output
	var out strings.Builder
	fmt.Fprintf(&out, "(* Generated by translator/go2coq from %s on every run. Do not edit. *)\n", strings.Join(spec.Files, ", "))
	out.WriteString("From Coq Require Import ZArith Bool.\nLocal Open Scope Z_scope.\nLocal Open Scope bool_scope.\n")
	out.WriteString("(* two's-complement / modular reduction to the static width of the Go type *)\n")
	out.WriteString("Definition wrap_s (w z : Z) : Z := (z + 2 ^ (w - 1)) mod 2 ^ w - 2 ^ (w - 1).\n")
	out.WriteString("Definition wrap_u (w z : Z) : Z := z mod 2 ^ w.\n")
	snames := []string{}
	for s := range structs {
		snames = append(snames, s)
	}
	sort.Strings(snames)
	usedStruct := func(s string) bool {
		for _, g := range fns {
			if g.ret == s {
				return true
			}
			for _, p := range g.params {
				if p.typ == s {
					return true
				}
			}
		}
		return false
	}
	for _, sq := range snames {
		if !usedStruct(sq) {
			continue
		}
		fs := structs[sq]
		s := bare(sq)
		parts, eqs, tys := []string{}, []string{}, []string{}
		for _, f := range fs {
			parts = append(parts, fmt.Sprintf("%s_%s : %s", s, f.name, coqType(f.typ)))
			tys = append(tys, f.typ)
			if f.typ == "bool" {
				eqs = append(eqs, fmt.Sprintf("Bool.eqb (%s_%s a) (%s_%s b)", s, f.name, s, f.name))
			} else {
				eqs = append(eqs, fmt.Sprintf("(%s_%s a =? %s_%s b)", s, f.name, s, f.name))
			}
		}
		fmt.Fprintf(&out, "(* type %s struct { %s } *)\n", s, strings.Join(func() []string {
			r := []string{}
			for i, f := range fs {
				r = append(r, f.name+" "+tys[i])
			}
			return r
		}(), "; "))
		fmt.Fprintf(&out, "Record %s : Type := mk%s { %s }.\n", s, s, strings.Join(parts, "; "))
		fmt.Fprintf(&out, "Definition %s_eqb (a b : %s) : bool := %s.\n", s, s, strings.Join(eqs, " && "))
	}
	ce := &env{vars: map[string]string{}, f: &fn{}}
	for _, c := range constOrder {
		curPkg = constPkg[c]
		fmt.Fprintf(&out, "Definition %s : %s := %s.\n", strings.ReplaceAll(c, ".", "_"), coqType(constTy[c]), ce.constExpr(consts[c]))
	}
	done := map[string]bool{}
	var emit func(k string, depth int)
	emit = func(k string, depth int) {
		if done[k] {
			return
		}
		if depth > len(fns)+1 {
			fail(fns[k].decl, "recursive functions are not in the subset")
		}
		ds := deps[k]
		sort.Strings(ds)
		for _, d := range ds {
			emit(d, depth+1)
		}
		done[k] = true
		g := fns[k]
		ps := []string{}
		for _, p := range g.params {
			ps = append(ps, fmt.Sprintf("(%s : %s)", p.name, coqType(p.typ)))
		}
		fmt.Fprintf(&out, "(* %s *)\nDefinition %s %s : %s :=\n  %s.\n", k, g.coq,
			strings.Join(ps, " "), coqType(g.ret), bodies[k])
	}
	keys := []string{}
	for k := range fns {
		keys = append(keys, k)
	}
	sort.Strings(keys)
	for _, k := range keys {
		emit(k, 0)
	}
	fmt.Print(out.String())
}
